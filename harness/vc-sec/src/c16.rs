//! C16 — the Noise handshake authenticates exactly the remote identity.
//!
//! Real code: `libp2p_noise::Config::{new, with_prologue}` and its inbound/outbound upgrades (all four
//! identity key types), driven over `vmon::pipe`.
//!
//! (a) on-path adversary between two honest endpoints, acting on whole handshake messages (it
//!     reassembles the u16-length-prefixed frames): every single-byte flip and every truncation point
//!     of each of the three messages (exhaustive for an ed25519 pair; strided for the other key-type
//!     pairs, whose messages are longer), sampled double flips, drop, duplicate, replace by an earlier
//!     message of the session, reflect to the sender, replace by the same-position message recorded
//!     from another session (other identities), insert a stray frame, zero the ephemeral key.
//!     Sessions are driven until both sides finished or neither can make progress.
//!     Oracle: a side that returns `Ok((peer, _))` names the *other honest endpoint* — the only party
//!     that holds keys in this setting. (Whether the receiver of a modified message fails is counted,
//!     not judged.)
//! (b) replay adversary: messages recorded from an honest session are replayed to a fresh honest
//!     responder (msg1, msg3) / initiator (msg2). Oracle: the fresh endpoint never returns `Ok`.
//! (c) malicious endpoint built in the harness from `snow` (XX, 25519 via x25519-dalek, ring
//!     ChaChaPoly/SHA256) with a hand-encoded `NoiseHandshakePayload`, as initiator and as responder,
//!     with an identity key of every type: its own key and a correct signature (control: `Ok` naming
//!     it), a victim's identity key with the victim's signature captured from a real handshake with
//!     the victim, victim key + own signature, own key + victim signature, signature under a wrong
//!     domain / no domain / over another static key / by a key of another type, bit-flipped, empty,
//!     missing key. Oracle: `Ok(peer)` only in the control, and then `peer` is the id of the key
//!     that signed `"noise-libp2p-static-key:" ++ static DH key` of the endpoint that ran the exchange.
//! (d) prologues: equal ⇒ control succeeds; different ⇒ neither side returns `Ok`.
//!
//! Not judged: which error is returned; liveness under dropped messages (a stalled handshake is
//! "no report").
use std::sync::{Arc, Mutex, atomic::AtomicU32};

use libp2p_core::upgrade::{InboundConnectionUpgrade, OutboundConnectionUpgrade};
use libp2p_identity::{Keypair, PeerId};
use libp2p_noise as noise;
use vmon::{
    Args, Check, Rng, Sig, Tier, catch, hex, json, pb,
    pipe::{DirCtl, End, Sched, TamperAction, pipe},
};

use crate::util::*;

static S_M: AtomicU32 = AtomicU32::new(0);
static S_E: AtomicU32 = AtomicU32::new(0);
static S_P: AtomicU32 = AtomicU32::new(0);

const DOMAIN: &[u8] = b"noise-libp2p-static-key:";
type HsResult = Result<(PeerId, noise::Output<End>), noise::Error>;

// ---------------------------------------------------------------------------------------------
// on-path adversary
// ---------------------------------------------------------------------------------------------

#[derive(Clone, Debug)]
enum Op {
    Flip(Vec<(usize, u8)>),
    Truncate(usize),
    Drop,
    Dup,
    Replace(Vec<u8>),
    InsertBefore(Vec<u8>),
    Reflect,
    ZeroEphemeral,
}
impl Op {
    fn name(&self) -> &'static str {
        match self {
            Op::Flip(v) if v.len() == 1 => "flip",
            Op::Flip(_) => "flip2",
            Op::Truncate(_) => "truncate",
            Op::Drop => "drop",
            Op::Dup => "dup",
            Op::Replace(_) => "replace",
            Op::InsertBefore(_) => "insert",
            Op::Reflect => "reflect",
            Op::ZeroEphemeral => "zero-e",
        }
    }
}

type Log = Arc<Mutex<Vec<(usize, Vec<u8>)>>>;

/// frame-level adversary on one direction
fn install(ctl: &DirCtl, a_to_b: bool, plan: Vec<(usize, Op)>, back: DirCtl, log: Log) {
    let mut acc: Vec<u8> = vec![];
    let mut idx = 0usize;
    let mut closed = false;
    ctl.set_tamper(Some(Box::new(move |_, chunk| {
        acc.extend_from_slice(chunk);
        chunk.clear();
        let mut action = TamperAction::Deliver;
        loop {
            if closed || acc.len() < 2 {
                break;
            }
            let n = u16::from_be_bytes([acc[0], acc[1]]) as usize;
            if acc.len() < 2 + n {
                break;
            }
            let frame: Vec<u8> = acc.drain(..2 + n).collect();
            let msg = if a_to_b { [1, 3, 5, 7][idx.min(3)] } else { [2, 4, 6, 8][idx.min(3)] };
            idx += 1;
            log.lock().unwrap().push((msg, frame.clone()));
            let mut out = frame.clone();
            for (m, op) in &plan {
                if *m != msg {
                    continue;
                }
                match op {
                    Op::Flip(v) => {
                        for (at, mask) in v {
                            if *at < out.len() {
                                out[*at] ^= mask;
                            }
                        }
                    }
                    Op::Truncate(at) => {
                        out.truncate(*at);
                        closed = true;
                        action = TamperAction::DeliverThenClose;
                    }
                    Op::Drop => out.clear(),
                    Op::Dup => out.extend_from_slice(&frame),
                    Op::Replace(r) => out = r.clone(),
                    Op::InsertBefore(r) => {
                        let mut o = r.clone();
                        o.extend_from_slice(&out);
                        out = o;
                    }
                    Op::Reflect => {
                        back.inject(&frame);
                        out.clear();
                    }
                    Op::ZeroEphemeral => {
                        for b in out.iter_mut().skip(2).take(32) {
                            *b = 0;
                        }
                    }
                }
            }
            chunk.extend_from_slice(&out);
        }
        action
    })));
}

struct Pair {
    kinds: (usize, usize),
    cfg: (noise::Config, noise::Config),
    ids: (PeerId, PeerId),
    /// wire lengths of msg1..3 (with the 2-byte prefix) and the recorded messages of a clean run
    clean: Vec<Vec<u8>>,
}

struct Outcome {
    a: Option<HsResult>,
    b: Option<HsResult>,
    log: Vec<(usize, Vec<u8>)>,
}

fn run_session(cfg_a: noise::Config, cfg_b: noise::Config, plan: &[(usize, Op)], scheds: (Sched, Sched)) -> Result<Outcome, vmon::PanicInfo> {
    let (a, b, a2b, b2a) = pipe(scheds.0, scheds.1);
    let log: Log = Arc::new(Mutex::new(vec![]));
    install(&a2b, true, plan.to_vec(), b2a.clone(), log.clone());
    install(&b2a, false, plan.to_vec(), a2b.clone(), log.clone());
    let fa: LocalFut<'static, HsResult> = Box::pin(cfg_a.upgrade_outbound(a, "/noise"));
    let fb: LocalFut<'static, HsResult> = Box::pin(cfg_b.upgrade_inbound(b, "/noise"));
    let driven = catch(|| drive2(fa, fb, 200_000));
    // the two adversary closures hold each other's direction handle: break the cycle (memcheck: no leaks)
    a2b.set_tamper(None);
    b2a.set_tamper(None);
    let (ra, rb, _over) = driven?;
    let log = log.lock().unwrap().clone();
    Ok(Outcome { a: ra, b: rb, log })
}

fn make_pair(ka: usize, kb: usize, rng: &mut Rng) -> Option<Pair> {
    let (a, b) = (gen_key(ka, rng), gen_key(kb, rng));
    let cfg = (noise::Config::new(&a).ok()?, noise::Config::new(&b).ok()?);
    let ids = (PeerId::from_public_key(&a.public()), PeerId::from_public_key(&b.public()));
    let out = run_session(cfg.0.clone(), cfg.1.clone(), &[], (Sched::smooth(), Sched::smooth())).ok()?;
    let mut clean = vec![];
    for m in 1..=3 {
        clean.push(out.log.iter().find(|(x, _)| *x == m)?.1.clone());
    }
    match (out.a, out.b) {
        (Some(Ok((pa, _))), Some(Ok((pb_, _)))) if pa == ids.1 && pb_ == ids.0 => Some(Pair { kinds: (ka, kb), cfg, ids, clean }),
        _ => None,
    }
}

fn describe(r: &Option<HsResult>) -> String {
    match r {
        None => "stalled".into(),
        Some(Ok((p, _))) => format!("ok:{p}"),
        Some(Err(e)) => format!("err:{e}"),
    }
}

fn judge_mitm(check: &Check, pair: &Pair, plan: &[(usize, Op)], scheds: (Sched, Sched)) {
    let sd = format!("{} | {}", scheds.0.describe(), scheds.1.describe());
    let plan_desc: Vec<String> = plan
        .iter()
        .map(|(m, op)| match op {
            Op::Replace(r) | Op::InsertBefore(r) => format!("msg{m}:{}({} bytes)", op.name(), r.len()),
            other => format!("msg{m}:{other:?}"),
        })
        .collect();
    let witness = |o: Option<&Outcome>| {
        json!({"key_types": [KEY_TYPES[pair.kinds.0], KEY_TYPES[pair.kinds.1]], "initiator": pair.ids.0.to_string(), "responder": pair.ids.1.to_string(),
               "plan": plan_desc, "schedules": sd, "initiator_result": o.map(|o| describe(&o.a)), "responder_result": o.map(|o| describe(&o.b))})
    };
    let out = match run_session(pair.cfg.0.clone(), pair.cfg.1.clone(), plan, scheds) {
        Err(p) => return check.violation(format!("panic@{}", p.site()), format!("noise handshake panicked: {}", p.msg), witness(None)),
        Ok(o) => o,
    };
    if let Some(Ok((p, _))) = &out.a {
        if *p != pair.ids.1 {
            check.violation(format!("mitm-{}-initiator-reports-other-peer", plan[0].1.name()), format!("initiator reports {p}, responder is {}", pair.ids.1), witness(Some(&out)));
        }
    }
    if let Some(Ok((p, _))) = &out.b {
        if *p != pair.ids.0 {
            check.violation(format!("mitm-{}-responder-reports-other-peer", plan[0].1.name()), format!("responder reports {p}, initiator is {}", pair.ids.0), witness(Some(&out)));
        }
    }
    let class = |r: &Option<HsResult>| match r {
        None => "stall",
        Some(Ok(_)) => "ok",
        Some(Err(_)) => "err",
    };
    check.count(&format!("mitm_outcome_{}_{}", class(&out.a), class(&out.b)), 1);
    // receiver of the (first) modified message
    let first = plan.iter().map(|(m, _)| *m).min().unwrap_or(1);
    let receiver_ok = if first == 2 { matches!(out.a, Some(Ok(_))) } else { matches!(out.b, Some(Ok(_))) };
    if receiver_ok && !matches!(plan[0].1, Op::Dup | Op::InsertBefore(_)) {
        check.count("receiver_accepted_modified_message_not_judged", 1);
    }
    check.count(&format!("mitm_op_{}", plan[0].1.name()), 1);
    let mut s = Sig::new().u64(pair.kinds.0 as u64).u64(pair.kinds.1 as u64);
    for d in &plan_desc {
        s.push_str(d);
    }
    check.case(s.0, out.a.is_some() || out.b.is_some());
    if out.a.is_some() && take_sample(&S_M, 2) {
        check.sample(json!({"kind": "on-path", "witness": witness(Some(&out))}));
    }
}

// ---------------------------------------------------------------------------------------------
// malicious endpoint (snow)
// ---------------------------------------------------------------------------------------------

struct XDh {
    sk: [u8; 32],
    pk: [u8; 32],
}
impl snow::types::Dh for XDh {
    fn name(&self) -> &'static str {
        "25519"
    }
    fn pub_len(&self) -> usize {
        32
    }
    fn priv_len(&self) -> usize {
        32
    }
    fn set(&mut self, sk: &[u8]) {
        self.sk.copy_from_slice(&sk[..32]);
        self.pk = x25519_dalek::x25519(self.sk, x25519_dalek::X25519_BASEPOINT_BYTES);
    }
    fn generate(&mut self, rng: &mut dyn snow::types::Random) -> Result<(), snow::Error> {
        let mut sk = [0u8; 32];
        rng.try_fill_bytes(&mut sk)?;
        self.set(&sk);
        Ok(())
    }
    fn pubkey(&self) -> &[u8] {
        &self.pk
    }
    fn privkey(&self) -> &[u8] {
        &self.sk
    }
    fn dh(&self, pk: &[u8], out: &mut [u8]) -> Result<(), snow::Error> {
        let mut p = [0u8; 32];
        p.copy_from_slice(&pk[..32]);
        out[..32].copy_from_slice(&x25519_dalek::x25519(self.sk, p));
        Ok(())
    }
}
struct XRng(Rng);
impl snow::types::Random for XRng {
    fn try_fill_bytes(&mut self, dest: &mut [u8]) -> Result<(), snow::Error> {
        self.0.fill(dest);
        Ok(())
    }
}
struct XResolver(u64);
impl snow::resolvers::CryptoResolver for XResolver {
    fn resolve_rng(&self) -> Option<Box<dyn snow::types::Random>> {
        Some(Box::new(XRng(Rng::new(self.0))))
    }
    fn resolve_dh(&self, choice: &snow::params::DHChoice) -> Option<Box<dyn snow::types::Dh>> {
        matches!(choice, snow::params::DHChoice::Curve25519).then(|| Box::new(XDh { sk: [0; 32], pk: [0; 32] }) as Box<dyn snow::types::Dh>)
    }
    fn resolve_hash(&self, choice: &snow::params::HashChoice) -> Option<Box<dyn snow::types::Hash>> {
        snow::resolvers::RingResolver.resolve_hash(choice)
    }
    fn resolve_cipher(&self, choice: &snow::params::CipherChoice) -> Option<Box<dyn snow::types::Cipher>> {
        snow::resolvers::RingResolver.resolve_cipher(choice)
    }
}

struct Evil {
    hs: snow::HandshakeState,
    static_pub: [u8; 32],
}
fn evil(initiator: bool, static_sk: &[u8; 32], prologue: &[u8], seed: u64) -> Evil {
    let params: snow::params::NoiseParams = "Noise_XX_25519_ChaChaPoly_SHA256".parse().expect("params");
    let b = snow::Builder::with_resolver(params, Box::new(XResolver(seed))).prologue(prologue).expect("prologue").local_private_key(static_sk).expect("static key");
    let hs = if initiator { b.build_initiator() } else { b.build_responder() }.expect("snow state");
    Evil { hs, static_pub: x25519_dalek::x25519(*static_sk, x25519_dalek::X25519_BASEPOINT_BYTES) }
}
fn frame16(b: &[u8]) -> Vec<u8> {
    let mut o = (b.len() as u16).to_be_bytes().to_vec();
    o.extend_from_slice(b);
    o
}
/// first complete frame in `buf`
fn unframe16(buf: &[u8]) -> Option<Vec<u8>> {
    if buf.len() < 2 {
        return None;
    }
    let n = u16::from_be_bytes([buf[0], buf[1]]) as usize;
    buf.get(2..2 + n).map(|b| b.to_vec())
}

/// Run the harness endpoint against an honest `Config`. `payload` builds the NoiseHandshakePayload bytes
/// from (static public key of the evil endpoint, honest side's decoded payload if already seen).
/// Returns the honest side's result (None = stalled) and the honest payload fields (key, sig).
fn run_evil(honest: noise::Config, honest_is_responder: bool, static_sk: &[u8; 32], seed: u64, payload: &dyn Fn(&[u8; 32]) -> Vec<u8>) -> Result<(Option<HsResult>, Option<(Vec<u8>, Vec<u8>)>), String> {
    let (h, m, h2m, m2h) = pipe(Sched::smooth(), Sched::smooth());
    let mut e = evil(honest_is_responder, static_sk, b"", seed);
    let mut fut: LocalFut<'static, HsResult> = if honest_is_responder { Box::pin(honest.upgrade_inbound(h, "/noise")) } else { Box::pin(honest.upgrade_outbound(h, "/noise")) };
    let mut buf = vec![0u8; 65535];
    let mut seen = None;
    let poll = |fut: &mut LocalFut<'static, HsResult>| vmon::exec::run_until_stalled(fut, 10_000);
    let body = payload(&e.static_pub);
    let decode_payload = |p: &[u8]| pb::Msg::decode(p).map(|m| (m.get_bytes(1).unwrap_or(&[]).to_vec(), m.get_bytes(2).unwrap_or(&[]).to_vec()));
    let result;
    if honest_is_responder {
        let n = e.hs.write_message(&[], &mut buf).map_err(|x| format!("evil msg1: {x}"))?;
        m2h.inject(&frame16(&buf[..n]));
        if let Some(r) = poll(&mut fut) {
            return Ok((Some(r), None));
        }
        let msg2 = unframe16(&h2m.drain()).ok_or("no msg2 from honest responder")?;
        let mut pl = vec![0u8; 65535];
        let n = e.hs.read_message(&msg2, &mut pl).map_err(|x| format!("evil read msg2: {x}"))?;
        seen = decode_payload(&pl[..n]);
        let n = e.hs.write_message(&body, &mut buf).map_err(|x| format!("evil msg3: {x}"))?;
        m2h.inject(&frame16(&buf[..n]));
        result = poll(&mut fut);
    } else {
        if let Some(r) = poll(&mut fut) {
            return Ok((Some(r), None));
        }
        let msg1 = unframe16(&h2m.drain()).ok_or("no msg1 from honest initiator")?;
        let mut pl = vec![0u8; 65535];
        e.hs.read_message(&msg1, &mut pl).map_err(|x| format!("evil read msg1: {x}"))?;
        let n = e.hs.write_message(&body, &mut buf).map_err(|x| format!("evil msg2: {x}"))?;
        m2h.inject(&frame16(&buf[..n]));
        result = poll(&mut fut);
        if let Some(msg3) = unframe16(&h2m.drain()) {
            let mut pl = vec![0u8; 65535];
            if let Ok(n) = e.hs.read_message(&msg3, &mut pl) {
                seen = decode_payload(&pl[..n]);
            }
        }
    }
    drop(m);
    Ok((result, seen))
}

const VARIANTS: [&str; 14] = [
    "valid", "stolen-identity", "victim-key-own-sig", "own-key-victim-sig", "wrong-domain", "no-domain", "domain-without-colon", "sig-over-other-static", "sig-by-other-key-type", "bitflipped-sig",
    "empty-sig", "missing-key", "empty-payload", "valid-with-unknown-field",
];

fn evil_case(check: &Check, rng: &mut Rng, variant: &str, honest_is_responder: bool, allow_rsa: bool) {
    let (hk_kind, honest_key) = gen_any_key(rng, false);
    let (mk_kind, my_key) = gen_any_key(rng, allow_rsa);
    let (mut vk_kind, mut victim_key) = gen_any_key(rng, allow_rsa);
    if victim_key.public() == my_key.public() {
        // only three RSA test keys exist: the victim must be somebody else
        vk_kind = rng.usize(3);
        victim_key = gen_key(vk_kind, rng);
    }
    let my_id = PeerId::from_public_key(&my_key.public());
    let victim_id = PeerId::from_public_key(&victim_key.public());
    let (Ok(honest), Ok(victim)) = (noise::Config::new(&honest_key), noise::Config::new(&victim_key)) else {
        return check.inconclusive("noise::Config::new failed");
    };
    let mut static_sk = [0u8; 32];
    rng.fill(&mut static_sk);
    let seed = rng.next_u64();
    // capture the victim's (identity key, signature over the victim's static key) through a legitimate handshake
    let my_pub = my_key.public().encode_protobuf();
    let sign = |k: &Keypair, msg: Vec<u8>| k.sign(&msg).unwrap_or_default();
    let honest_payload = |st: &[u8; 32]| pb::Msg::new().bytes(1, &my_pub).bytes(2, sign(&my_key, [DOMAIN, &st[..]].concat())).encode();
    let captured = match catch(|| run_evil(victim.clone(), true, &static_sk, seed ^ 1, &honest_payload)) {
        Ok(Ok((Some(Ok((p, _))), Some(c)))) if p == my_id => c,
        Ok(other) => return check.inconclusive(format!("capture handshake with the victim did not complete: {:?}", other.map(|(r, _)| describe(&r)))),
        Err(p) => return check.violation(format!("panic@{}", p.site()), p.msg.clone(), json!({"phase": "capture"})),
    };
    let (victim_pub, victim_sig) = captured;
    let other_type_key = gen_key((mk_kind + 1) % 3, rng);
    let mut other_static = [0u8; 32];
    rng.fill(&mut other_static);
    let flip_at = rng.next_u64();
    let payload = |st: &[u8; 32]| -> Vec<u8> {
        let good = [DOMAIN, &st[..]].concat();
        match variant {
            "valid" => pb::Msg::new().bytes(1, &my_pub).bytes(2, sign(&my_key, good)).encode(),
            "valid-with-unknown-field" => pb::Msg::new().bytes(1, &my_pub).bytes(2, sign(&my_key, good)).bytes(7, b"future").encode(),
            "stolen-identity" => pb::Msg::new().bytes(1, &victim_pub).bytes(2, &victim_sig).encode(),
            "victim-key-own-sig" => pb::Msg::new().bytes(1, &victim_pub).bytes(2, sign(&my_key, good)).encode(),
            "own-key-victim-sig" => pb::Msg::new().bytes(1, &my_pub).bytes(2, &victim_sig).encode(),
            "wrong-domain" => pb::Msg::new().bytes(1, &my_pub).bytes(2, sign(&my_key, [b"libp2p-tls-handshake:".as_slice(), &st[..]].concat())).encode(),
            "no-domain" => pb::Msg::new().bytes(1, &my_pub).bytes(2, sign(&my_key, st.to_vec())).encode(),
            "domain-without-colon" => pb::Msg::new().bytes(1, &my_pub).bytes(2, sign(&my_key, [b"noise-libp2p-static-key".as_slice(), &st[..]].concat())).encode(),
            "sig-over-other-static" => pb::Msg::new().bytes(1, &my_pub).bytes(2, sign(&my_key, [DOMAIN, &other_static[..]].concat())).encode(),
            "sig-by-other-key-type" => pb::Msg::new().bytes(1, &my_pub).bytes(2, sign(&other_type_key, good)).encode(),
            "bitflipped-sig" => {
                let mut s = sign(&my_key, good);
                let n = s.len().max(1);
                if !s.is_empty() {
                    s[(flip_at as usize) % n] ^= 1 << (flip_at >> 60 & 7);
                }
                pb::Msg::new().bytes(1, &my_pub).bytes(2, s).encode()
            }
            "empty-sig" => pb::Msg::new().bytes(1, &my_pub).encode(),
            "missing-key" => pb::Msg::new().bytes(2, sign(&my_key, good)).encode(),
            _ => vec![],
        }
    };
    let witness = |r: &Option<HsResult>| {
        json!({"variant": variant, "honest_role": if honest_is_responder { "responder" } else { "initiator" }, "honest_key_type": KEY_TYPES[hk_kind], "adversary_key_type": KEY_TYPES[mk_kind],
               "victim_key_type": KEY_TYPES[vk_kind], "adversary_id": my_id.to_string(), "victim_id": victim_id.to_string(), "adversary_static_secret_hex": hex(&static_sk), "honest_result": describe(r)})
    };
    let res = match catch(|| run_evil(honest.clone(), honest_is_responder, &static_sk, seed, &payload)) {
        Err(p) => return check.violation(format!("panic@{}", p.site()), format!("noise handshake panicked: {}", p.msg), witness(&None)),
        Ok(Err(e)) => return check.inconclusive(format!("adversary endpoint failed: {e}")),
        Ok(Ok((r, _))) => r,
    };
    let control = variant == "valid" || variant == "valid-with-unknown-field";
    match &res {
        Some(Ok((p, _))) => {
            if control {
                if *p != my_id {
                    check.violation("endpoint-valid-reports-other-peer", format!("honest side reports {p}; the key that signed the static key is {my_id}"), witness(&res));
                }
            } else if *p == victim_id {
                check.violation(format!("impersonation-{variant}"), format!("honest side reports the victim {p} while talking to the adversary"), witness(&res));
            } else {
                check.violation(format!("accepted-unauthenticated-{variant}"), format!("honest side returned Ok({p}) although no identity key signed the adversary's static key"), witness(&res));
            }
        }
        Some(Err(_)) | None => {
            if control {
                // the adversary rig itself must be able to complete an honest handshake, else the other variants prove nothing
                check.inconclusive(format!("control handshake of the harness endpoint failed: {}", describe(&res)));
            }
        }
    }
    check.count(&format!("endpoint_{variant}_{}", match &res { Some(Ok(_)) => "ok", Some(Err(_)) => "err", None => "stall" }), 1);
    check.case(Sig::new().str(variant).u64(honest_is_responder as u64).u64(hk_kind as u64).u64(mk_kind as u64).u64(vk_kind as u64).0, true);
    if take_sample(&S_E, 2) {
        check.sample(json!({"kind": "malicious-endpoint", "witness": witness(&res)}));
    }
}

// ---------------------------------------------------------------------------------------------
// replay and prologue
// ---------------------------------------------------------------------------------------------

fn replay_case(check: &Check, pair: &Pair, to_responder: bool) {
    let (h, m, h2m, m2h) = pipe(Sched::smooth(), Sched::smooth());
    let mut fut: LocalFut<'static, HsResult> = if to_responder { Box::pin(pair.cfg.1.clone().upgrade_inbound(h, "/noise")) } else { Box::pin(pair.cfg.0.clone().upgrade_outbound(h, "/noise")) };
    let res = catch(|| {
        if to_responder {
            m2h.inject(&pair.clean[0]);
            if let Some(r) = vmon::exec::run_until_stalled(&mut fut, 10_000) {
                return Some(r);
            }
            let _ = h2m.drain();
            m2h.inject(&pair.clean[2]);
            vmon::exec::run_until_stalled(&mut fut, 10_000)
        } else {
            if let Some(r) = vmon::exec::run_until_stalled(&mut fut, 10_000) {
                return Some(r);
            }
            let _ = h2m.drain();
            m2h.inject(&pair.clean[1]);
            vmon::exec::run_until_stalled(&mut fut, 10_000)
        }
    });
    drop(m);
    let w = || json!({"key_types": [KEY_TYPES[pair.kinds.0], KEY_TYPES[pair.kinds.1]], "replayed_to": if to_responder { "fresh responder (msg1, msg3)" } else { "fresh initiator (msg2)" }});
    match res {
        Err(p) => check.violation(format!("panic@{}", p.site()), p.msg.clone(), w()),
        Ok(Some(Ok((p, _)))) => check.violation("replayed-handshake-accepted", format!("fresh endpoint completed with replayed messages and reports {p}"), w()),
        Ok(_) => {}
    }
    check.count("replays", 1);
    check.case(Sig::new().u64(pair.kinds.0 as u64).u64(pair.kinds.1 as u64).u64(to_responder as u64).u64(0xbeef).0, true);
}

fn prologue_case(check: &Check, rng: &mut Rng) {
    let (ka, a) = gen_any_key(rng, false);
    let (kb, b) = gen_any_key(rng, false);
    let ids = (PeerId::from_public_key(&a.public()), PeerId::from_public_key(&b.public()));
    let gen_p = |rng: &mut Rng| -> Vec<u8> {
        let n = *rng.pick(&[0usize, 1, 2, 16, 100, 1000]);
        rng.bytes(n)
    };
    let pa = gen_p(rng);
    let pb_ = match rng.usize(5) {
        0 | 1 => pa.clone(),
        2 if !pa.is_empty() => {
            let mut p = pa.clone();
            let at = rng.usize(p.len());
            p[at] ^= 1 << rng.usize(8);
            p
        }
        3 => [pa.clone(), vec![0]].concat(),
        _ => {
            let p = gen_p(rng);
            if p == pa { [p, vec![1]].concat() } else { p }
        }
    };
    let same = pa == pb_;
    let (Ok(ca), Ok(cb)) = (noise::Config::new(&a), noise::Config::new(&b)) else { return check.inconclusive("Config::new") };
    let scheds = if rng.bool() { (Sched::smooth(), Sched::smooth()) } else { (Sched::random(rng), Sched::random(rng)) };
    let w = |o: &Outcome| json!({"key_types": [KEY_TYPES[ka], KEY_TYPES[kb]], "prologue_initiator_hex": hex(&pa), "prologue_responder_hex": hex(&pb_), "initiator_result": describe(&o.a), "responder_result": describe(&o.b)});
    let out = match run_session(ca.with_prologue(pa.clone()), cb.with_prologue(pb_.clone()), &[], scheds) {
        Err(p) => return check.violation(format!("panic@{}", p.site()), p.msg.clone(), json!({"prologues": [hex(&pa), hex(&pb_)]})),
        Ok(o) => o,
    };
    if same {
        match (&out.a, &out.b) {
            (Some(Ok((x, _))), Some(Ok((y, _)))) if *x == ids.1 && *y == ids.0 => {}
            (Some(Ok((x, _))), Some(Ok((y, _)))) => check.violation("honest-handshake-reports-other-peer", format!("initiator saw {x} (responder is {}), responder saw {y} (initiator is {})", ids.1, ids.0), w(&out)),
            _ => check.violation("equal-prologue-handshake-fails", format!("{} / {}", describe(&out.a), describe(&out.b)), w(&out)),
        }
    } else {
        if matches!(out.a, Some(Ok(_))) {
            check.violation("prologue-mismatch-initiator-succeeds", "initiator completed although the prologues differ", w(&out));
        }
        if matches!(out.b, Some(Ok(_))) {
            check.violation("prologue-mismatch-responder-succeeds", "responder completed although the prologues differ", w(&out));
        }
    }
    check.count(if same { "prologue_equal" } else { "prologue_different" }, 1);
    check.case(Sig::new().bytes(&pa).u64(9).bytes(&pb_).0, true);
    if !same && take_sample(&S_P, 1) {
        check.sample(json!({"kind": "prologue", "witness": w(&out)}));
    }
}

pub fn run(args: &Args) -> i32 {
    let check = Check::new(
        args,
        "fault_enumeration",
        "on-path: for honest pairs of key types, every byte position of msg1..msg3 x {flip, truncate} (exhaustive on an ed25519 \
         pair, strided on others), sampled double flips, and message-level drop/dup/replace/reflect/insert/cross-session ops; \
         replay of recorded sessions to fresh endpoints; malicious snow endpoint x 14 payload variants x role x key types; \
         prologue pairs. non-trivial = at least one honest side finished (on-path) / the case ran its control path; distinct by \
         (key types, plan) resp. (variant, role, key types)",
    );
    let thorough = args.tier == Tier::Thorough;
    let tiny = is_tiny(args);
    let mut rng0 = Rng::for_case(args.seed, 0xC16);
    // honest pairs + clean recordings
    let kinds: Vec<(usize, usize)> = if tiny { vec![(ED25519, ED25519)] } else { vec![(ED25519, ED25519), (SECP256K1, ECDSA), (ECDSA, SECP256K1), (RSA, ED25519), (ED25519, RSA)] };
    let mut pairs = vec![];
    for (ka, kb) in &kinds {
        match make_pair(*ka, *kb, &mut rng0) {
            Some(p) => pairs.push(p),
            None => check.violation("honest-handshake-fails", format!("clean {} / {} session did not complete with the right identities", KEY_TYPES[*ka], KEY_TYPES[*kb]), json!({})),
        }
    }
    if pairs.is_empty() {
        return check.finish();
    }
    let other = make_pair(ED25519, SECP256K1, &mut rng0); // another session, other identities: source of cross-session messages
    check.note("clean_message_lengths", json!(pairs.iter().map(|p| json!({"key_types": [KEY_TYPES[p.kinds.0], KEY_TYPES[p.kinds.1]], "msg_len": p.clean.iter().map(|m| m.len()).collect::<Vec<_>>()})).collect::<Vec<_>>()));
    // job list
    let mut jobs: Vec<(usize, Vec<(usize, Op)>)> = vec![];
    for (pi, p) in pairs.iter().enumerate() {
        let stride = if pi == 0 { if tiny { 29 } else { 1 } } else if thorough { 1 } else { 2 };
        for m in 1..=3usize {
            let len = p.clean[m - 1].len();
            let mut at = (pi * 3) % stride;
            while at < len {
                let masks: Vec<u8> = if thorough && pi == 0 { (0..8).map(|b| 1 << b).collect() } else { vec![1 << rng0.usize(8)] };
                for mask in masks {
                    jobs.push((pi, vec![(m, Op::Flip(vec![(at, mask)]))]));
                }
                jobs.push((pi, vec![(m, Op::Truncate(at))]));
                at += stride;
            }
            // message-level operations
            let mut ops = vec![Op::Drop, Op::Dup, Op::Reflect, Op::ZeroEphemeral, Op::InsertBefore(frame16(&rng0.bytes(40))), Op::InsertBefore(frame16(&[])), Op::Replace(frame16(&rng0.bytes(len - 2))), Op::Replace(frame16(&vec![0u8; len - 2]))];
            for earlier in 1..m {
                ops.push(Op::Replace(p.clean[earlier - 1].clone()));
            }
            // same-position message of an earlier session of the *same* pair (stale ephemeral keys)
            ops.push(Op::Replace(p.clean[m - 1].clone()));
            if let Some(o) = &other {
                ops.push(Op::Replace(o.clean[m - 1].clone()));
            }
            for op in ops {
                jobs.push((pi, vec![(m, op)]));
            }
        }
    }
    let n_double = budget(args, 10, 600, 120_000);
    for _ in 0..n_double {
        let pi = rng0.usize(pairs.len());
        let (m1, m2) = (1 + rng0.usize(3), 1 + rng0.usize(3));
        let (l1, l2) = (pairs[pi].clean[m1 - 1].len(), pairs[pi].clean[m2 - 1].len());
        let f1 = (rng0.usize(l1), 1u8 << rng0.usize(8));
        let f2 = (rng0.usize(l2), 1u8 << rng0.usize(8));
        if m1 == m2 {
            if f1 == f2 {
                continue;
            }
            jobs.push((pi, vec![(m1, Op::Flip(vec![f1, f2]))]));
        } else {
            jobs.push((pi, vec![(m1, Op::Flip(vec![f1])), (m2, Op::Flip(vec![f2]))]));
        }
    }
    check.note("on_path_jobs", json!(jobs.len()));
    vmon::par_cases(&check, jobs.len() as u64, args.threads, |i, rng| {
        let (pi, plan) = &jobs[i as usize];
        let scheds = if rng.chance(3, 4) { (Sched::smooth(), Sched::smooth()) } else { (Sched::random(rng), Sched::random(rng)) };
        judge_mitm(&check, &pairs[*pi], plan, scheds);
    });
    check.note("phase_s_on_path", json!(check.elapsed()));
    for p in &pairs {
        replay_case(&check, p, true);
        replay_case(&check, p, false);
    }
    // malicious endpoint
    let reps = budget(args, 1, 12, 600);
    let n_e = VARIANTS.len() as u64 * 2 * reps;
    vmon::par_cases(&check, n_e, args.threads, |i, rng| {
        let variant = VARIANTS[(i as usize) % VARIANTS.len()];
        let honest_is_responder = (i as usize / VARIANTS.len()) % 2 == 0;
        evil_case(&check, rng, variant, honest_is_responder, !tiny && i % 3 == 0);
    });
    check.note("phase_s_endpoint", json!(check.elapsed()));
    let n_p = budget(args, 6, 300, 20_000);
    vmon::par_cases(&check, n_p, args.threads, |_, rng| prologue_case(&check, rng));
    check.note("exhaustive", json!("single flips and truncations: every byte of the three messages for the ed25519 pair (thorough: all 8 bits; other pairs every byte, one bit)"));
    check.finish()
}
