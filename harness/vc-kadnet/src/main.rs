//! Kademlia checks that need the network simulator: C43 (provider / publisher legitimacy) and the
//! wire half of C42 (`C42` itself is served by vc-kad, which runs this binary's `C42NET` part too).
mod kadnet;

fn main() {
    vmon::run_main(&[("C43", kadnet::run_c43), ("C42NET", kadnet::run_c42net)]);
}
