mod c40;
mod c41;
mod c42;
mod c44;
mod util;

fn main() {
    vmon::run_main(&[("C40", c40::run), ("C41", c41::run), ("C42", c42::run), ("C44", c44::run)]);
}
