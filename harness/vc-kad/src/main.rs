mod c37;
mod c38;
mod c39;
mod c40;
mod c41;
mod c42;
mod c44;
mod kadnet;
mod util;

fn main() {
    vmon::run_main(&[("C37", c37::run), ("C38", c38::run), ("C39", c39::run), ("C40", c40::run), ("C41", c41::run), ("C42", c42::run), ("C43", kadnet::run_c43), ("C44", c44::run)]);
}
