mod c40;
mod util;

fn main() {
    vmon::run_main(&[("C40", c40::run)]);
}
