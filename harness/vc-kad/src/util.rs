//! Shared helpers of the kad group: independent 256-bit arithmetic on big-endian byte arrays,
//! SHA-256 via the `sha2` crate (not via libp2p-kad), deterministic PeerId generation.
#![allow(dead_code)]

use libp2p_core::multihash::Multihash;
use libp2p_identity::PeerId;
use libp2p_kad::{KBucketDistance, KBucketKey, verif::kbucket::KeyBytes};
use sha2::{Digest, Sha256};
use vmon::Rng;

pub type B32 = [u8; 32];

pub fn sha256(b: &[u8]) -> B32 {
    let d = Sha256::digest(b);
    let mut o = [0u8; 32];
    o.copy_from_slice(d.as_slice());
    o
}

pub fn xor32(a: &B32, b: &B32) -> B32 {
    let mut o = [0u8; 32];
    for i in 0..32 {
        o[i] = a[i] ^ b[i];
    }
    o
}

/// position (0 = least significant) of the highest set bit of a big-endian 256-bit integer
pub fn highest_bit(a: &B32) -> Option<u32> {
    for (i, x) in a.iter().enumerate() {
        if *x != 0 {
            let byte_pos = 31 - i as u32;
            return Some(byte_pos * 8 + (7 - x.leading_zeros()));
        }
    }
    None
}

/// a + b on big-endian 256-bit integers; returns (sum mod 2^256, carry)
pub fn add256(a: &B32, b: &B32) -> (B32, bool) {
    let mut o = [0u8; 32];
    let mut c = 0u16;
    for i in (0..32).rev() {
        let s = a[i] as u16 + b[i] as u16 + c;
        o[i] = s as u8;
        c = s >> 8;
    }
    (o, c != 0)
}

/// 2^i as big-endian bytes
pub fn pow2(i: u32) -> B32 {
    let mut o = [0u8; 32];
    o[31 - (i / 8) as usize] = 1 << (i % 8);
    o
}

/// 2^(i+1) - 1
pub fn ones_below(i: u32) -> B32 {
    let mut o = [0u8; 32];
    for bit in 0..=i {
        o[31 - (bit / 8) as usize] |= 1 << (bit % 8);
    }
    o
}

pub fn is_zero(a: &B32) -> bool {
    a.iter().all(|x| *x == 0)
}

pub fn dist_bytes(d: &KBucketDistance) -> B32 {
    d.0.to_big_endian()
}

/// Deterministic PeerId: sha2-256 multihash wrapping 32 PRNG bytes.
pub fn peer_from_bytes(b: &B32) -> PeerId {
    PeerId::from_multihash(Multihash::<64>::wrap(0x12, b).expect("32 <= 64")).expect("sha2-256 is a valid peer id multihash")
}
pub fn rand_peer(rng: &mut Rng) -> PeerId {
    let mut b = [0u8; 32];
    rng.fill(&mut b);
    peer_from_bytes(&b)
}

pub fn rand_b32(rng: &mut Rng) -> B32 {
    let mut b = [0u8; 32];
    rng.fill(&mut b);
    b
}

/// A random 256-bit value whose highest set bit is exactly `i`.
pub fn rand_with_top_bit(rng: &mut Rng, i: u32) -> B32 {
    let mut b = rand_b32(rng);
    let mask = ones_below(i);
    for k in 0..32 {
        b[k] &= mask[k];
    }
    let p = pow2(i);
    for k in 0..32 {
        b[k] |= p[k];
    }
    b
}

pub fn raw_key(b: &B32) -> KeyBytes {
    KeyBytes::verif_from_raw(*b)
}

pub fn peer_key_raw(k: &KBucketKey<PeerId>) -> B32 {
    let mut o = [0u8; 32];
    o.copy_from_slice(k.hashed_bytes());
    o
}

pub fn short(b: &[u8]) -> String {
    vmon::hex(b)
}

/// random byte string of length in [0, max)
pub fn rbytes(rng: &mut Rng, max: usize) -> Vec<u8> {
    let n = if max == 0 { 0 } else { rng.usize(max) };
    rng.bytes(n)
}

// ------------------------------------------------------------------------------------------------
// Watchdog: a call into the code under test that does not return must not hang the check.
// Expiry is *inconclusive* (exit 2), never a violation.
// ------------------------------------------------------------------------------------------------
use std::sync::{
    Arc,
    atomic::{AtomicBool, AtomicU64, AtomicUsize, Ordering},
};

pub struct Dog {
    slots: Vec<AtomicU64>,
    what: std::sync::Mutex<Vec<String>>,
    t0: std::time::Instant,
    done: AtomicBool,
    next_slot: AtomicUsize,
}
thread_local! { static SLOT: std::cell::Cell<usize> = const { std::cell::Cell::new(usize::MAX) }; }

impl Dog {
    /// `limit_s`: a single case may run this long (wall clock) before the run is abandoned.
    /// On expiry the check's evidence/violations collected so far are still written (`finish`), the
    /// process exits 1 if real violations were already observed, else 2 (inconclusive).
    pub fn start(check: &'static vmon::Check, limit_s: u64) -> Arc<Dog> {
        let check_id: &str = &check.id;
        let d = Arc::new(Dog {
            slots: (0..256).map(|_| AtomicU64::new(0)).collect(),
            what: std::sync::Mutex::new(vec![String::new(); 256]),
            t0: std::time::Instant::now(),
            done: AtomicBool::new(false),
            next_slot: AtomicUsize::new(0),
        });
        let dd = d.clone();
        let id = check_id.to_string();
        std::thread::spawn(move || {
            loop {
                std::thread::sleep(std::time::Duration::from_millis(500));
                if dd.done.load(Ordering::Relaxed) {
                    return;
                }
                let now = dd.t0.elapsed().as_millis() as u64 + 1;
                for (i, s) in dd.slots.iter().enumerate() {
                    let st = s.load(Ordering::Relaxed);
                    if st != 0 && now.saturating_sub(st) > limit_s * 1000 {
                        let w = dd.what.lock().map(|g| g[i].clone()).unwrap_or_default();
                        check.inconclusive(format!("watchdog: one case has been inside the code under test for more than {limit_s} s (call does not return); case: {w}"));
                        check.note("watchdog_fired", vmon::json!(true));
                        let code = check.finish();
                        println!("INCONCLUSIVE property={id} reasons=[\"watchdog: a call into the code under test did not return within {limit_s} s\"]");
                        std::process::exit(if code == vmon::EXIT_VIOLATION { code } else { vmon::EXIT_INCONCLUSIVE });
                    }
                }
            }
        });
        d
    }
    fn slot(&self) -> usize {
        SLOT.with(|s| {
            if s.get() == usize::MAX {
                s.set(self.next_slot.fetch_add(1, Ordering::Relaxed) % self.slots.len());
            }
            s.get()
        })
    }
    pub fn enter(&self, what: impl FnOnce() -> String) {
        let i = self.slot();
        if let Ok(mut g) = self.what.lock() {
            g[i] = what();
        }
        self.slots[i].store(self.t0.elapsed().as_millis() as u64 + 1, Ordering::Relaxed);
    }
    pub fn leave(&self) {
        self.slots[self.slot()].store(0, Ordering::Relaxed);
    }
    pub fn stop(&self) {
        self.done.store(true, Ordering::Relaxed);
    }
}
