//! Shared helpers of the kad group: independent 256-bit arithmetic on big-endian byte arrays,
//! SHA-256 via the `sha2` crate (not via libp2p-kad), deterministic PeerId generation.
#![allow(dead_code)]

use libp2p_core::multihash::Multihash;
use libp2p_identity::PeerId;
use libp2p_kad::{KBucketDistance, KBucketKey, verif::kbucket::KeyBytes};
use sha2::{Digest, Sha256};
use vmon::Rng;

pub type B32 = [u8; 32];

pub fn sha256(b: &[u8]) -> B32 {
    let d = Sha256::digest(b);
    let mut o = [0u8; 32];
    o.copy_from_slice(d.as_slice());
    o
}

pub fn xor32(a: &B32, b: &B32) -> B32 {
    let mut o = [0u8; 32];
    for i in 0..32 {
        o[i] = a[i] ^ b[i];
    }
    o
}

/// position (0 = least significant) of the highest set bit of a big-endian 256-bit integer
pub fn highest_bit(a: &B32) -> Option<u32> {
    for (i, x) in a.iter().enumerate() {
        if *x != 0 {
            let byte_pos = 31 - i as u32;
            return Some(byte_pos * 8 + (7 - x.leading_zeros()));
        }
    }
    None
}

/// a + b on big-endian 256-bit integers; returns (sum mod 2^256, carry)
pub fn add256(a: &B32, b: &B32) -> (B32, bool) {
    let mut o = [0u8; 32];
    let mut c = 0u16;
    for i in (0..32).rev() {
        let s = a[i] as u16 + b[i] as u16 + c;
        o[i] = s as u8;
        c = s >> 8;
    }
    (o, c != 0)
}

/// 2^i as big-endian bytes
pub fn pow2(i: u32) -> B32 {
    let mut o = [0u8; 32];
    o[31 - (i / 8) as usize] = 1 << (i % 8);
    o
}

/// 2^(i+1) - 1
pub fn ones_below(i: u32) -> B32 {
    let mut o = [0u8; 32];
    for bit in 0..=i {
        o[31 - (bit / 8) as usize] |= 1 << (bit % 8);
    }
    o
}

pub fn is_zero(a: &B32) -> bool {
    a.iter().all(|x| *x == 0)
}

pub fn dist_bytes(d: &KBucketDistance) -> B32 {
    d.0.to_big_endian()
}

/// Deterministic PeerId: sha2-256 multihash wrapping 32 PRNG bytes.
pub fn peer_from_bytes(b: &B32) -> PeerId {
    PeerId::from_multihash(Multihash::<64>::wrap(0x12, b).expect("32 <= 64")).expect("sha2-256 is a valid peer id multihash")
}
pub fn rand_peer(rng: &mut Rng) -> PeerId {
    let mut b = [0u8; 32];
    rng.fill(&mut b);
    peer_from_bytes(&b)
}

pub fn rand_b32(rng: &mut Rng) -> B32 {
    let mut b = [0u8; 32];
    rng.fill(&mut b);
    b
}

/// A random 256-bit value whose highest set bit is exactly `i`.
pub fn rand_with_top_bit(rng: &mut Rng, i: u32) -> B32 {
    let mut b = rand_b32(rng);
    let mask = ones_below(i);
    for k in 0..32 {
        b[k] &= mask[k];
    }
    let p = pow2(i);
    for k in 0..32 {
        b[k] |= p[k];
    }
    b
}

pub fn raw_key(b: &B32) -> KeyBytes {
    KeyBytes::verif_from_raw(*b)
}

pub fn peer_key_raw(k: &KBucketKey<PeerId>) -> B32 {
    let mut o = [0u8; 32];
    o.copy_from_slice(k.hashed_bytes());
    o
}

pub fn short(b: &[u8]) -> String {
    vmon::hex(b)
}

/// random byte string of length in [0, max)
pub fn rbytes(rng: &mut Rng, max: usize) -> Vec<u8> {
    let n = if max == 0 { 0 } else { rng.usize(max) };
    rng.bytes(n)
}
