//! C42 — record lifetimes are never extended or lost in transit.
//!
//! The statement has two halves:
//!   (A) a record stored because a peer sent it never expires later than the sender's expiry nor
//!       later than the local record TTL, and has no expiry only if neither is set;
//!   (B) a record with an expiry is never *sent* as a record that does not expire.
//!
//! Half (B) is `part_b_outgoing`; half (A) (`part_a_received`) runs a real `kad::Behaviour` in the network simulator (kadnet.rs).
//! (historic note) Half (A) needs a real `kad::Behaviour`
//! inside the network simulator with a raw peer speaking the wire protocol (owner: main session);
//! `part_a_received` forwards to `kadnet::c42_part_a`.
//!
//! Half (B): real code driven = the real `Codec` encode path (`req_msg_to_proto` /
//! `resp_msg_to_proto` → `record_to_proto`) for the two message kinds that carry a record with a
//! lifetime (`PutValue` request, `GetValue` response). The record's `expires` is set to
//! `before + L` for remaining lifetimes L from 1 ns to 10 s and beyond (grid around every whole
//! second, PRNG sub-second values, hours, values around 2^32 s) and to instants in the past.
//! Observation: the encoded frame is parsed by the harness' own protobuf reader (`vmon::pb`,
//! dht.proto: Message.record = field 3, Record.ttl = field 777, 0/absent = "does not expire").
//! Oracle:
//!   * `expires.is_some()`  ⇒  ttl >= 1               (statement, literal)
//!   * ttl <= max(1, ceil(L))                          ("never extended": L is measured from a stamp
//!     taken *before* the encode call, so the true remaining lifetime is <= L; one-sided)
//! Not judged: a record without expiry encoded with ttl > 0, and lifetimes that get *shorter* on the
//! wire (the statement only forbids extension/loss). Wall-clock: the verdict never depends on how
//! long the encode call takes — scheduling delay can only turn a sub-second lifetime into an
//! already-expired one (encoded as ttl 1, which is fine).
use std::time::Duration;

use asynchronous_codec::Encoder;
use bytes::BytesMut;
use libp2p_kad::{
    Record, RecordKey,
    verif::protocol::{KadRequestMsg, KadResponseMsg},
};
use vmon::{Args, Check, Rng, Sig, catch, json, pb};
use web_time::Instant;

use crate::{c44::codecs, util::*};

#[derive(Clone, Copy, Debug)]
enum Life {
    None,
    Past(Duration),
    Future(Duration),
}

fn gen_life(rng: &mut Rng) -> Life {
    const GRID_MS: [u64; 24] = [1, 10, 100, 250, 499, 500, 501, 900, 999, 1000, 1001, 1500, 1999, 2000, 2001, 2500, 4999, 5000, 9999, 10_000, 10_001, 60_000, 3_600_000, 129_600_000];
    match rng.below(20) {
        0 => Life::None,
        1 => Life::Past(Duration::ZERO),
        2 => Life::Past(Duration::from_nanos(1 + rng.below(1_000_000_000))),
        3 => Life::Past(Duration::from_secs(1 + rng.below(10))),
        4..=9 => Life::Future(Duration::from_millis(*rng.pick(&GRID_MS))),
        10..=12 => Life::Future(Duration::from_nanos(1 + rng.below(1_000_000_000))), // (0, 1 s]
        13..=14 => Life::Future(Duration::from_nanos(1 + rng.below(10_000_000_000))), // (0, 10 s]
        15 => Life::Future(Duration::from_secs(rng.range(1, 10)) + Duration::from_nanos(rng.below(2) * 999_999_999)),
        16 => Life::Future(Duration::from_secs(rng.range(10, 200_000))),
        17 => Life::Future(Duration::from_secs((1u64 << 32) - 2 + rng.below(5))), // around u32 wrap
        18 => Life::Future(Duration::from_secs((1u64 << 32) * rng.range(1, 3))),
        _ => Life::Future(Duration::from_millis(1 + rng.below(999))),
    }
}

fn class_of(l: &Life) -> &'static str {
    match l {
        Life::None => "no-expiry",
        Life::Past(_) => "already-expired",
        Life::Future(d) if *d <= Duration::from_secs(1) => "up-to-1s",
        Life::Future(d) if d.as_secs() >= u32::MAX as u64 => "lifetime>=2^32s",
        Life::Future(d) if *d <= Duration::from_secs(10) => "1s-10s",
        Life::Future(_) => ">10s",
    }
}

/// ttl of Message.record as a wire-level observer sees it; Err = frame not parseable
fn wire_ttl(frame: &[u8]) -> Result<(u64, bool), String> {
    let (frames, rest) = pb::unframe(frame);
    if frames.len() != 1 || !rest.is_empty() {
        return Err(format!("expected exactly one frame, got {} (+{} bytes)", frames.len(), rest.len()));
    }
    let m = pb::Msg::decode(&frames[0]).ok_or("message is not valid protobuf")?;
    let rec = m.get_bytes(3).ok_or("message has no record field (3)")?;
    let r = pb::Msg::decode(rec).ok_or("record is not valid protobuf")?;
    match r.get(777) {
        None => Ok((0, false)),
        Some(pb::Val::Varint(v)) => Ok((*v, true)),
        Some(other) => Err(format!("ttl field has wrong wire type: {other:?}")),
    }
}

fn part_b_case(check: &Check, rng: &mut Rng) {
    let life = gen_life(rng);
    let as_request = rng.bool();
    let (mut out, mut inn) = codecs(None);
    let key = RecordKey::from(rbytes(rng, 12));
    let value = rbytes(rng, 24);
    let publisher = if rng.bool() { Some(rand_peer(rng)) } else { None };
    let mut wire = BytesMut::new();

    let before = Instant::now();
    let expires = match life {
        Life::None => None,
        Life::Past(d) => before.checked_sub(d).or(Some(before)),
        Life::Future(d) => Some(before + d),
    };
    let record = Record { key: key.clone(), value, publisher, expires };
    let r = catch(|| {
        if as_request {
            out.codec_mut().encode(KadRequestMsg::PutValue { record }, &mut wire).map_err(|e| e.to_string())
        } else {
            inn.codec_mut().encode(KadResponseMsg::GetValue { record: Some(record), closer_peers: vec![] }, &mut wire).map_err(|e| e.to_string())
        }
    });
    let after = Instant::now();
    // Signature class: judged by the remaining lifetime the encoder can have seen, i.e. the nominal
    // lifetime minus at most (after - before). A nominal 1.001 s record encoded 2 ms late is in the
    // same failing class as a 999 ms one (keeps signatures independent of scheduling delay).
    let class = match life {
        Life::Future(d) if d.as_secs() < u32::MAX as u64 && d.saturating_sub(after - before) <= Duration::from_secs(1) => "up-to-1s",
        _ => class_of(&life),
    };
    let kind = if as_request { "PutValue request" } else { "GetValue response" };
    let witness = json!({"message": kind, "lifetime": format!("{life:?}"), "class": class, "wire": vmon::hex(&wire)});
    match r {
        Err(p) => check.violation(format!("encode-panic@{}", p.site()), format!("panic encoding a record with lifetime {life:?}: {}", p.msg), witness),
        Ok(Err(e)) => check.violation("encode-error", format!("encoding a small record failed: {e}"), witness),
        Ok(Ok(())) => match wire_ttl(&wire) {
            Err(e) => check.inconclusive(format!("harness could not parse the encoded frame: {e}")),
            Ok((ttl, _present)) => {
                check.count(&format!("class_{class}"), 1);
                check.count(if ttl == 0 { "ttl_zero_seen" } else { "ttl_nonzero_seen" }, 1);
                match life {
                    Life::None => {
                        if ttl != 0 {
                            check.count("no_expiry_sent_with_ttl_not_judged", 1);
                        }
                    }
                    Life::Past(_) | Life::Future(_) => {
                        let ceil_secs = match life {
                            Life::Future(d) => d.as_secs() + (d.subsec_nanos() > 0) as u64,
                            _ => 0,
                        };
                        if ttl == 0 {
                            check.violation(
                                format!("expiring-record-sent-with-ttl-0:{class}"),
                                format!("{kind}: record with remaining lifetime {life:?} is encoded with ttl 0 = \"does not expire\""),
                                witness,
                            );
                        } else if ttl > ceil_secs.max(1) {
                            check.violation(
                                format!("ttl-extends-lifetime:{class}"),
                                format!("{kind}: record with remaining lifetime {life:?} is encoded with ttl {ttl} s"),
                                witness,
                            );
                        }
                    }
                }
                let nontrivial = !matches!(life, Life::None);
                let lbucket = match life {
                    Life::None => 0,
                    Life::Past(d) => 1 + d.as_millis() as u64,
                    Life::Future(d) => (1 << 40) + d.as_millis() as u64,
                };
                check.case(Sig::new().u64(as_request as u64).u64(lbucket).0, nontrivial);
                if nontrivial && check.want_sample() && rng.chance(1, 50) {
                    check.sample(json!({"part": "B", "message": kind, "lifetime": format!("{life:?}"), "ttl_on_wire": ttl}));
                }
            }
        },
    }
}

/// Half (B): outgoing records.
pub fn part_b_outgoing(check: &Check, args: &Args) {
    let n = args.extra.get("budget").map(|b| if b == "tiny" { 50 } else { 2_000 }).unwrap_or(args.tier.pick(40_000, 5_000_000));
    vmon::par_cases(check, n, args.threads, |_i, rng| part_b_case(check, rng));
    check.note("part_b_outgoing", json!("ran"));
}

/// Half (A): received records under every record-TTL configuration. Needs the network simulator
/// (`vnet`) and a raw wire peer; to be added by the owner of `vnet`. Until then the evidence says so.
pub fn part_a_received(check: &Check, args: &Args) {
    // real kad node in the network simulator, PUT_VALUE sent by a raw peer (see kadnet.rs)
    crate::kadnet::c42_part_a(check, args);
    crate::kadnet::c42_part_c(check, args);
}

pub fn run(args: &Args) -> i32 {
    let check = Check::new(
        args,
        "exploration",
        "half B: PutValue requests and GetValue responses carrying a record whose remaining lifetime is None, in the past, or 1 ns .. 10 s (grid around every whole second \
         plus PRNG), hours, and around 2^32 s, encoded by the real Codec and parsed with the harness protobuf reader. Non-trivial = record has an expiry; distinct by (message kind, lifetime in ms)",
    );
    part_a_received(&check, args);
    part_b_outgoing(&check, args);
    check.note("exhaustive", json!(false));
    check.finish()
}
