//! C39 — iterative lookups are bounded, terminate and return the closest responders.
//!
//! Real code driven: `ClosestPeersIter` (re-exported), `ClosestDisjointPeersIter` and
//! `FixedPeersIter` (1:1 forwarding wrappers `verif::query::{DisjointIter, FixedIter}`), with
//! fabricated `Instant`s (the iterators take `now` as an argument; no clock hook is involved).
//!
//! World: a finite peer graph — N peers, every peer has a fixed answer list (its neighbours) — a
//! target key, a config (parallelism p, num_results k, peer_timeout 10 s) and the initially known
//! peers. The harness is the network: whenever the iterator waits, an explorer decides which
//! outstanding request is answered with success / failure (also late, after its timeout), whether
//! virtual time jumps to the next request deadline, or whether all silent peers stay silent forever
//! ("give up": time passes every deadline and nothing more is delivered). Exhaustive mode walks
//! *all* explorer decisions for small graphs (stateless DFS by replay, capped per graph);
//! PRNG mode draws them for graphs up to 60 peers.
//!
//! Monitor (from the statement; it only uses what it told the iterator and what the iterator told it):
//!   in-flight      at the moment a new request is issued, the number of requests that are issued,
//!                  unanswered and not timed out (at the `now` passed to `next`) is < p — or
//!                  < max(k, p) if the lookup may be stalled. "May be stalled" is tracked
//!                  conservatively: it needs p consecutive accepted successes none of which was
//!                  *definite progress* (fewer than k peers known, or a new peer closer than every
//!                  known one); for the disjoint iterator: at least p accepted successes.
//!                  Always: in-flight <= max(k, p). (`num_waiting()` of the plain iterator must
//!                  not be smaller than the monitor's count.)
//!   termination    the drive loop ends within 10·(peers)+50 iterations; when nothing is in flight
//!                  (or every silent peer is past its deadline and the explorer gave up) the
//!                  iterator must finish or issue within peers+4 further `next` calls, a full
//!                  peer timeout of virtual time passing between them
//!   contact        only peers the iterator was told about are contacted, each at most once
//!   result         ⊆ peers whose request was answered with success; no duplicates; strictly
//!                  increasing distance to the target (harness XOR on SHA-256 bytes); <= k
//!   closure        on self-finish: every peer the iterator was told about that is closer than
//!                  the farthest returned peer was contacted and is not still waiting (unanswered
//!                  and not timed out at the final `now`)
//! Not judged: FixedPeersIter has no target / num_results / timeout, so order, size and closure
//! clauses do not apply to it (in-flight, termination, contact and result ⊆ responders do).
use std::{
    collections::{HashMap, HashSet},
    num::NonZeroUsize,
    time::Duration,
};

use libp2p_identity::PeerId;
use libp2p_kad::{
    KBucketKey,
    verif::{
        kbucket::KeyBytes,
        query::{ClosestPeersIter, ClosestPeersIterConfig, DisjointIter, FixedIter, PeersIterState},
    },
};
use vmon::{Args, Check, Rng, Sig, catch, json};
use web_time::Instant;

use crate::util::*;

const TIMEOUT: Duration = Duration::from_secs(10);

#[derive(Clone, Copy, PartialEq, Eq, Debug)]
enum Kind {
    Closest,
    Disjoint,
    Fixed,
}
impl Kind {
    fn name(self) -> &'static str {
        match self {
            Kind::Closest => "closest",
            Kind::Disjoint => "disjoint",
            Kind::Fixed => "fixed",
        }
    }
}

enum It {
    Closest(ClosestPeersIter),
    Disjoint(DisjointIter),
    Fixed(FixedIter),
}

enum St {
    Issue(PeerId),
    WaitNone,
    WaitCap,
    Finished,
}

fn conv(s: PeersIterState<'_>) -> St {
    match s {
        PeersIterState::Waiting(Some(p)) => St::Issue(p.into_owned()),
        PeersIterState::Waiting(None) => St::WaitNone,
        PeersIterState::WaitingAtCapacity => St::WaitCap,
        PeersIterState::Finished => St::Finished,
    }
}

impl It {
    fn next(&mut self, now: Instant) -> St {
        match self {
            It::Closest(i) => conv(i.next(now)),
            It::Disjoint(i) => conv(i.next(now)),
            It::Fixed(i) => conv(i.next()),
        }
    }
    fn on_success(&mut self, p: &PeerId, closer: Vec<PeerId>) -> bool {
        match self {
            It::Closest(i) => i.on_success(p, closer),
            It::Disjoint(i) => i.on_success(p, closer),
            It::Fixed(i) => i.on_success(p),
        }
    }
    fn on_failure(&mut self, p: &PeerId) -> bool {
        match self {
            It::Closest(i) => i.on_failure(p),
            It::Disjoint(i) => i.on_failure(p),
            It::Fixed(i) => i.on_failure(p),
        }
    }
    fn finish(&mut self) {
        match self {
            It::Closest(i) => i.finish(),
            It::Disjoint(i) => i.finish(),
            It::Fixed(i) => i.finish(),
        }
    }
    fn num_waiting(&self) -> Option<usize> {
        match self {
            It::Closest(i) => Some(i.num_waiting()),
            _ => None,
        }
    }
    fn into_result(self) -> Vec<PeerId> {
        match self {
            It::Closest(i) => i.into_result().collect(),
            It::Disjoint(i) => i.into_result(),
            It::Fixed(i) => i.into_result(),
        }
    }
}

/// The generated world.
#[derive(Clone)]
struct World {
    kind: Kind,
    peers: Vec<PeerId>,
    dist: Vec<B32>,
    graph: Vec<Vec<usize>>,
    initial: Vec<usize>,
    target: KeyBytes,
    p: usize,
    k: usize,
}

impl World {
    fn json(&self) -> vmon::Value {
        let mut order: Vec<usize> = (0..self.peers.len()).collect();
        order.sort_by_key(|i| self.dist[*i]);
        json!({"iterator": self.kind.name(), "parallelism": self.p, "num_results": self.k, "peers": self.peers.len(),
            "initial": self.initial, "graph": self.graph, "peers_by_distance": order})
    }
    fn build(&self) -> It {
        let cfg = ClosestPeersIterConfig { parallelism: NonZeroUsize::new(self.p).unwrap(), num_results: NonZeroUsize::new(self.k).unwrap(), peer_timeout: TIMEOUT };
        let init = self.initial.iter().map(|i| KBucketKey::from(self.peers[*i]));
        match self.kind {
            Kind::Closest => It::Closest(ClosestPeersIter::with_config(cfg, self.target, init)),
            Kind::Disjoint => It::Disjoint(DisjointIter::with_config(cfg, self.target, init)),
            Kind::Fixed => It::Fixed(FixedIter::new(self.initial.iter().map(|i| self.peers[*i]), NonZeroUsize::new(self.p).unwrap())),
        }
    }
}

fn gen_world(rng: &mut Rng, kind: Kind, n: usize) -> World {
    let peers: Vec<PeerId> = (0..n).map(|_| rand_peer(rng)).collect();
    let tk: KBucketKey<Vec<u8>> = KBucketKey::new(rng.bytes(8));
    let mut traw = [0u8; 32];
    traw.copy_from_slice(tk.hashed_bytes());
    let dist = peers.iter().map(|p| xor32(&sha256(&p.to_bytes()), &traw)).collect();
    let deg = 1 + rng.usize(4);
    let graph = (0..n)
        .map(|_| {
            let d = match rng.below(5) {
                0 => 0,
                1 => n.min(20),
                _ => rng.usize(deg + 1),
            };
            (0..d).map(|_| rng.usize(n)).collect()
        })
        .collect();
    let many = rng.chance(1, 10);
    let ni = if n == 0 { 0 } else { 1 + rng.usize(n.min(if many { 25 } else { 4 })) };
    let mut all: Vec<usize> = (0..n).collect();
    rng.shuffle(&mut all);
    let mut initial: Vec<usize> = all[..ni.min(n)].to_vec();
    if kind == Kind::Fixed && rng.bool() && !initial.is_empty() {
        // duplicates in a fixed list are skipped by the iterator
        let d = *rng.pick(&initial);
        initial.push(d);
    }
    let p = 1 + rng.usize(if kind == Kind::Disjoint { 3 } else { 4 });
    let k = match rng.below(6) {
        0 => 1,
        1 => 20,
        _ => 1 + rng.usize(5),
    };
    World { kind, peers, dist, graph, initial, target: tk.into(), p, k }
}

// ------------------------------------------------------------------------------------------------
// explorer decisions
// ------------------------------------------------------------------------------------------------

#[derive(Clone, Copy, Debug, PartialEq)]
enum Act {
    Success(usize),
    Failure(usize),
    /// jump to the earliest deadline of an unanswered, not yet timed-out request
    Deadline,
    /// small step (1 s)
    Tick,
    /// every still-silent peer stays silent forever; time passes all deadlines
    GiveUp,
    /// deliver an answer nobody asked for (peer never contacted or already answered)
    Spurious(usize, bool),
    /// call finish()
    FinishEarly,
}

trait Chooser {
    fn pick(&mut self, acts: &[(Act, u32)]) -> usize;
}
struct Prng<'a>(&'a mut Rng);
impl Chooser for Prng<'_> {
    fn pick(&mut self, acts: &[(Act, u32)]) -> usize {
        let w: Vec<u32> = acts.iter().map(|a| a.1).collect();
        self.0.weighted(&w)
    }
}
/// stateless DFS: replays a prefix of choices, extends with 0s, `advance` moves to the next leaf
struct Dfs {
    stack: Vec<(usize, usize)>,
    pos: usize,
}
impl Dfs {
    fn advance(&mut self) -> bool {
        self.stack.truncate(self.pos);
        while let Some((c, n)) = self.stack.pop() {
            if c + 1 < n {
                self.stack.push((c + 1, n));
                self.pos = 0;
                return true;
            }
        }
        false
    }
}
impl Chooser for Dfs {
    fn pick(&mut self, acts: &[(Act, u32)]) -> usize {
        let n = acts.len();
        if self.pos < self.stack.len() {
            self.stack[self.pos].1 = n;
            let c = self.stack[self.pos].0.min(n - 1);
            self.pos += 1;
            c
        } else {
            self.stack.push((0, n));
            self.pos += 1;
            0
        }
    }
}

// ------------------------------------------------------------------------------------------------
// one run
// ------------------------------------------------------------------------------------------------

#[derive(Default)]
struct RunStats {
    issued: usize,
    successes: usize,
    failures: usize,
    late_answers: usize,
    timeouts: usize,
    max_inflight: usize,
    self_finished: bool,
    results: usize,
    trace_sig: u64,
    possibly_stalled_seen: bool,
    gave_up: bool,
    ignored_answers: usize,
    idle_time_jumps: usize,
}

type Fail = (String, String);

fn run_once(w: &World, ch: &mut dyn Chooser, allow_extras: bool, allow_ticks: bool, trace: &mut Vec<String>) -> Result<RunStats, Fail> {
    let kn = w.kind.name();
    let fail = |s: &str, what: String| -> Fail { (format!("{kn}:{s}"), what) };
    let n = w.peers.len();
    let idx: HashMap<PeerId, usize> = w.peers.iter().enumerate().map(|(i, p)| (*p, i)).collect();
    let base = Instant::now();
    let mut off = Duration::ZERO;
    let mut it = w.build();
    let timed = w.kind != Kind::Fixed;
    // what the iterator was told
    let mut known: HashSet<usize> = w.initial.iter().take(20).cloned().collect();
    if w.kind == Kind::Fixed {
        known = w.initial.iter().cloned().collect();
    }
    let mut issued_at: HashMap<usize, Duration> = HashMap::new();
    let mut answered: HashMap<usize, bool> = HashMap::new(); // peer -> success?
    let mut responders: HashSet<usize> = HashSet::new();
    let mut st = RunStats::default();
    let mut sig = Sig::new();
    // stall tracking
    let mut run_no_progress = 0usize;
    let mut possibly_stalled = false;
    let mut total_successes = 0usize;
    let stalled_bound = w.k.max(w.p);
    let mut gave_up = false;
    let mut idle_next_calls = 0; // consecutive next() calls without any new input while nothing can arrive
    let mut ticks = 0;
    let mut finished_early = false;
    let bound = 10 * (n + w.initial.len()) + 50;
    let mut iters = 0;

    let inflight = |issued_at: &HashMap<usize, Duration>, answered: &HashMap<usize, bool>, off: Duration| -> usize {
        issued_at.iter().filter(|(i, t)| !answered.contains_key(*i) && (!timed || **t + TIMEOUT > off)).count()
    };

    loop {
        iters += 1;
        if iters > bound {
            return Err(fail("no-termination-within-bound", format!("drive loop exceeded {bound} iterations ({} issued, {} answered)", issued_at.len(), answered.len())));
        }
        let now = base + off;
        match it.next(now) {
            St::Finished => {
                st.self_finished = !finished_early;
                break;
            }
            St::Issue(p) => {
                idle_next_calls = 0;
                let i = *idx.get(&p).ok_or_else(|| fail("contacted-unknown-peer", format!("iterator asks to contact {p}, which is not in the world")))?;
                if !known.contains(&i) {
                    return Err(fail("contacted-unknown-peer", format!("iterator asks to contact peer{i}, which it was never told about")));
                }
                if issued_at.contains_key(&i) {
                    return Err(fail("peer-contacted-twice", format!("peer{i} is contacted a second time")));
                }
                let before = inflight(&issued_at, &answered, off);
                let stalled_now = if w.kind == Kind::Disjoint { total_successes >= w.p } else { possibly_stalled };
                let limit = if w.kind == Kind::Fixed || !stalled_now { w.p } else { stalled_bound };
                if before >= limit {
                    return Err(fail(
                        if limit == w.p { "inflight-exceeds-parallelism" } else { "inflight-exceeds-stalled-bound" },
                        format!("request to peer{i} issued while {before} requests are in flight (parallelism {}, num_results {}, may-be-stalled {stalled_now})", w.p, w.k),
                    ));
                }
                issued_at.insert(i, off);
                st.issued += 1;
                st.max_inflight = st.max_inflight.max(before + 1);
                if before + 1 > stalled_bound && w.kind != Kind::Fixed {
                    return Err(fail("inflight-exceeds-stalled-bound", format!("{} requests in flight > max(num_results {}, parallelism {})", before + 1, w.k, w.p)));
                }
                if let Some(nw) = it.num_waiting() {
                    if nw < before + 1 {
                        return Err(fail("num-waiting-undercounts", format!("num_waiting() = {nw} but {} requests are issued, unanswered and not timed out", before + 1)));
                    }
                }
                sig.push_u64(0x1000 + i as u64);
                trace.push(format!("issue peer{i} @{}s", off.as_secs()));
                continue;
            }
            St::WaitNone | St::WaitCap => {}
        }
        // the iterator waits: what can the network do?
        let unanswered: Vec<usize> = {
            let mut v: Vec<usize> = issued_at.keys().filter(|i| !answered.contains_key(*i)).cloned().collect();
            v.sort();
            v
        };
        let unexpired: Vec<usize> = unanswered.iter().filter(|i| !timed || issued_at[*i] + TIMEOUT > off).cloned().collect();
        let mut acts: Vec<(Act, u32)> = vec![];
        if !gave_up {
            for i in &unanswered {
                acts.push((Act::Success(*i), 6));
                acts.push((Act::Failure(*i), 2));
            }
            if timed && !unexpired.is_empty() {
                acts.push((Act::Deadline, 2));
                if allow_ticks && ticks < n + 2 {
                    acts.push((Act::Tick, 1));
                }
            }
            if !unanswered.is_empty() {
                acts.push((Act::GiveUp, 1));
            }
            if allow_extras && n > 0 {
                acts.push((Act::Spurious(0, true), 1));
                acts.push((Act::FinishEarly, 1));
            }
        }
        if gave_up && !unanswered.is_empty() {
            // requests issued after the give-up stay silent as well
            if timed {
                if !unexpired.is_empty() {
                    let t = unexpired.iter().map(|i| issued_at[i] + TIMEOUT).max().expect("non-empty");
                    st.timeouts += unexpired.len();
                    off = off.max(t);
                    idle_next_calls = 0;
                    trace.push(format!("clock -> {}s (silent peers)", off.as_secs()));
                    continue;
                }
            } else {
                for i in &unanswered {
                    it.on_failure(&w.peers[*i]);
                    answered.insert(*i, false);
                    st.failures += 1;
                }
                idle_next_calls = 0;
                continue;
            }
        }
        let nothing_can_arrive = gave_up || unanswered.is_empty();
        if nothing_can_arrive {
            // No input will ever come (every request is answered, or silent and past its deadline):
            // the iterator has to finish or issue on its own as time goes by. Let a full peer
            // timeout pass between the attempts so that anything it still waits for internally
            // expires.
            idle_next_calls += 1;
            // patience: the disjoint iterator lets each path wait (virtually) for peers another path
            // contacted, `parallelism` of them per peer timeout, so it may need ~peers/parallelism timeouts
            if idle_next_calls > n + 4 {
                return Err(fail(
                    if unanswered.is_empty() { "waits-with-nothing-in-flight" } else { "waits-forever-for-timed-out-peers" },
                    format!("next() keeps answering Waiting over {} peer timeouts although {} requests are unanswered (all past their deadline) and no input can arrive", idle_next_calls - 1, unanswered.len()),
                ));
            }
            if idle_next_calls > 1 {
                if timed {
                    off += TIMEOUT;
                    trace.push(format!("clock -> {}s (idle)", off.as_secs()));
                }
                st.idle_time_jumps += 1;
            }
            continue;
        }
        idle_next_calls = 0;
        let a = acts[ch.pick(&acts)].0;
        match a {
            Act::Success(i) | Act::Failure(i) => {
                let late = timed && issued_at[&i] + TIMEOUT <= off;
                let ok = matches!(a, Act::Success(_));
                let closer: Vec<PeerId> = w.graph[i].iter().map(|j| w.peers[*j]).collect();
                let accepted = if ok { it.on_success(&w.peers[i], closer) } else { it.on_failure(&w.peers[i]) };
                answered.insert(i, ok);
                if late {
                    st.late_answers += 1;
                }
                if ok {
                    st.successes += 1;
                    responders.insert(i);
                    if accepted {
                        total_successes += 1;
                        // definite progress?
                        let before = known.len();
                        let min_known = known.iter().map(|j| w.dist[*j]).min();
                        let new_closest = w.graph[i].iter().any(|j| !known.contains(j) && min_known.is_none_or(|m| w.dist[*j] < m));
                        if w.kind != Kind::Fixed {
                            known.extend(w.graph[i].iter().cloned());
                        }
                        if before < w.k || new_closest {
                            run_no_progress = 0;
                            possibly_stalled = false;
                        } else {
                            run_no_progress += 1;
                            if run_no_progress >= w.p {
                                possibly_stalled = true;
                                st.possibly_stalled_seen = true;
                            }
                        }
                    } else {
                        st.ignored_answers += 1; // e.g. the disjoint path that issued the request has finished meanwhile
                    }
                } else {
                    st.failures += 1;
                    if !accepted {
                        st.ignored_answers += 1;
                    }
                }
                sig.push_u64(if ok { 0x2000 } else { 0x3000 } + i as u64 + if late { 0x800 } else { 0 });
                trace.push(format!("{} peer{i}{} @{}s", if ok { "success" } else { "failure" }, if late { " (late)" } else { "" }, off.as_secs()));
            }
            Act::Deadline => {
                let t = unexpired.iter().map(|i| issued_at[i] + TIMEOUT).min().expect("non-empty");
                st.timeouts += unexpired.iter().filter(|i| issued_at[*i] + TIMEOUT == t).count();
                off = t;
                sig.push_u64(0x4000);
                trace.push(format!("clock -> {}s (deadline)", off.as_secs()));
            }
            Act::Tick => {
                ticks += 1;
                off += Duration::from_secs(1);
                sig.push_u64(0x4001);
                trace.push(format!("clock -> {}s", off.as_secs()));
            }
            Act::GiveUp => {
                gave_up = true;
                st.gave_up = true;
                if timed {
                    let t = unanswered.iter().map(|i| issued_at[i] + TIMEOUT).max().expect("non-empty");
                    st.timeouts += unexpired.len();
                    off = off.max(t);
                } else {
                    // no timeouts in the fixed iterator: silent peers are reported as failures (what the
                    // behaviour does when a connection attempt fails)
                    for i in &unanswered {
                        it.on_failure(&w.peers[*i]);
                        answered.insert(*i, false);
                        st.failures += 1;
                    }
                }
                sig.push_u64(0x5000);
                trace.push(format!("give up; clock -> {}s", off.as_secs()));
            }
            Act::Spurious(_, _) => {
                // an answer for a peer that has no outstanding request
                // (never contacted, or already answered with success; a success for a request that was
                // already reported as failed would be a contradictory environment and is not generated)
                let cand: Vec<usize> = (0..n).filter(|i| !issued_at.contains_key(i) || answered.get(i) == Some(&true)).collect();
                if let Some(i) = cand.first().cloned() {
                    let already = answered.contains_key(&i);
                    let acc = it.on_success(&w.peers[i], vec![]);
                    if acc && !already && !issued_at.contains_key(&i) {
                        // told the iterator nothing new (empty list); acceptance itself is judged through the result
                        trace.push(format!("spurious success peer{i} ACCEPTED"));
                    } else {
                        trace.push(format!("spurious success peer{i}"));
                    }
                    sig.push_u64(0x6000 + i as u64);
                }
            }
            Act::FinishEarly => {
                it.finish();
                finished_early = true;
                sig.push_u64(0x7000);
                trace.push("finish()".into());
            }
        }
    }

    // ------------------------------------------------------------------------------------------
    // result
    // ------------------------------------------------------------------------------------------
    let final_off = off;
    let res = it.into_result();
    st.results = res.len();
    let mut seen = HashSet::new();
    let mut res_idx = vec![];
    for p in &res {
        let i = *idx.get(p).ok_or_else(|| fail("returned-unknown-peer", format!("result contains {p} which is not in the world")))?;
        if !seen.insert(i) {
            return Err(fail("result-duplicate", format!("peer{i} is returned twice")));
        }
        if !responders.contains(&i) {
            return Err(fail("returned-peer-that-never-responded", format!("peer{i} is in the result but never answered a request with success (issued: {}, answered: {:?})", issued_at.contains_key(&i), answered.get(&i))));
        }
        res_idx.push(i);
    }
    if w.kind != Kind::Fixed {
        if res_idx.len() > w.k {
            return Err(fail("result-exceeds-num-results", format!("{} peers returned, num_results = {}", res_idx.len(), w.k)));
        }
        for x in res_idx.windows(2) {
            if w.dist[x[0]] >= w.dist[x[1]] {
                return Err(fail("result-not-sorted", format!("peer{} is returned before the closer peer{}", x[0], x[1])));
            }
        }
        if st.self_finished {
            if let Some(far) = res_idx.iter().map(|i| w.dist[*i]).max() {
                for q in &known {
                    if w.dist[*q] < far {
                        match issued_at.get(q) {
                            None => return Err(fail("finished-with-closer-peer-uncontacted", format!("finished on its own although peer{q}, closer than the farthest returned peer, was never contacted"))),
                            Some(t) => {
                                if !answered.contains_key(q) && *t + TIMEOUT > final_off {
                                    return Err(fail("finished-with-closer-peer-still-waiting", format!("finished on its own although peer{q}, closer than the farthest returned peer, is still waiting (issued at {}s, now {}s)", t.as_secs(), final_off.as_secs())));
                                }
                            }
                        }
                    }
                }
            }
        }
    }
    st.trace_sig = sig.0;
    Ok(st)
}

fn report(check: &Check, w: &World, r: Result<Result<RunStats, Fail>, vmon::PanicInfo>, trace: &[String], mode: &str) -> Option<RunStats> {
    let witness = || json!({"mode": mode, "world": w.json(), "trace": trace});
    match r {
        Err(p) => {
            check.violation(format!("{}:panic@{}", w.kind.name(), p.site()), format!("panic: {}", p.msg), witness());
            check.case(0, false);
            None
        }
        Ok(Err((sig, what))) => {
            check.violation(sig, what, witness());
            check.case(0, false);
            None
        }
        Ok(Ok(st)) => {
            let kn = w.kind.name();
            check.count(&format!("{kn}_runs"), 1);
            check.count("requests_issued", st.issued as u64);
            check.count("answers_success", st.successes as u64);
            check.count("answers_failure", st.failures as u64);
            check.count("answers_late", st.late_answers as u64);
            check.count("timeouts", st.timeouts as u64);
            check.count("give_ups", st.gave_up as u64);
            check.count("idle_waits_resolved_by_time", st.idle_time_jumps as u64);
            check.count("answers_ignored_by_iterator_not_judged", st.ignored_answers as u64);
            check.count("self_finished", st.self_finished as u64);
            check.count("maybe_stalled_runs", st.possibly_stalled_seen as u64);
            check.distinct("distinct_interleavings", st.trace_sig);
            check.distinct(&format!("{kn}_max_inflight_values"), st.max_inflight as u64);
            check.case(Sig::new().u64(st.trace_sig).bytes(&w.dist.first().cloned().unwrap_or([0; 32])).0, st.issued >= 2);
            Some(st)
        }
    }
}

fn exhaustive_graph(check: &Check, dog: &Dog, rng: &mut Rng, cap: u64) {
    let kind = *rng.pick(&[Kind::Closest, Kind::Closest, Kind::Disjoint, Kind::Fixed]);
    let n = 2 + rng.usize(4); // 2..=5 peers
    let mut w = gen_world(rng, kind, n);
    w.p = 1 + rng.usize(2);
    w.k = 1 + rng.usize(3);
    let mut dfs = Dfs { stack: vec![], pos: 0 };
    let mut runs = 0u64;
    let mut complete = false;
    loop {
        dfs.pos = 0;
        let mut trace = vec![];
        dog.enter(|| format!("exhaustive {}", w.json()));
        let r = catch(|| run_once(&w, &mut dfs, false, false, &mut trace));
        dog.leave();
        let bad = !matches!(r, Ok(Ok(_)));
        let st = report(check, &w, r, &trace, "exhaustive");
        runs += 1;
        if runs == 1 && st.is_some() && check.counter("exh_samples") < 2 {
            check.count("exh_samples", 1);
            check.sample(json!({"mode": "exhaustive", "world": w.json(), "first_schedule": trace}));
        }
        if bad {
            break;
        }
        if !dfs.advance() {
            complete = true;
            break;
        }
        if runs >= cap {
            break;
        }
    }
    check.count("exhaustive_graphs", 1);
    check.count("exhaustive_graphs_fully_explored", complete as u64);
    check.count("exhaustive_schedules", runs);
}

fn prng_graph(check: &Check, dog: &Dog, rng: &mut Rng) {
    let kind = *rng.pick(&[Kind::Closest, Kind::Closest, Kind::Closest, Kind::Disjoint, Kind::Disjoint, Kind::Fixed]);
    let n = match rng.below(5) {
        0 => rng.usize(4),
        1 => 40 + rng.usize(21),
        _ => 4 + rng.usize(30),
    };
    let w = gen_world(rng, kind, n);
    let mut trace = vec![];
    let extras = rng.chance(1, 5);
    let mut ch = Prng(rng);
    dog.enter(|| format!("prng {}", w.json()));
    let r = catch(|| run_once(&w, &mut ch, extras, true, &mut trace));
    dog.leave();
    if let Some(st) = report(check, &w, r, &trace, "prng") {
        if st.issued >= 4 && st.timeouts > 0 && check.counter("prng_samples") < 3 {
            check.count("prng_samples", 1);
            check.sample(json!({"mode": "prng", "iterator": kind.name(), "peers": n, "parallelism": w.p, "num_results": w.k, "issued": st.issued, "successes": st.successes,
                "failures": st.failures, "late": st.late_answers, "timeouts": st.timeouts, "max_inflight": st.max_inflight, "results": st.results, "self_finished": st.self_finished,
                "schedule_head": trace.iter().take(12).collect::<Vec<_>>()}));
        }
    }
}

pub fn run(args: &Args) -> i32 {
    let check: &'static Check = Box::leak(Box::new(Check::new(
        args,
        "exploration",
        "worlds = (iterator kind, peer graph with fixed answer lists, target, initial peers, parallelism 1-4, num_results 1-5/20); exhaustive part: graphs of 2-5 peers, all explorer schedules \
         (which outstanding request succeeds/fails incl. late, jump to next deadline, tick, give up) by DFS, capped per graph; PRNG part: graphs up to 60 peers with weighted random schedules plus \
         spurious answers and early finish(). Non-trivial = run with >= 2 issued requests; distinct by (schedule trace, world)",
    )));
    let tiny = args.extra.get("budget").map(|b| b == "tiny").unwrap_or(false);
    let (graphs, cap, prng) = if tiny { (4, 50, 20) } else { args.tier.pick((1_500, 2_000, 300_000), (10_000, 20_000, 4_000_000)) };
    let dog = Dog::start(check, if args.extra.get("budget").is_some() { 3_600 } else { 60 });
    vmon::par_cases(check, graphs, args.threads, |_i, rng| exhaustive_graph(check, &dog, rng, cap));
    vmon::par_cases(check, prng, args.threads, |_i, rng| prng_graph(check, &dog, rng));
    dog.stop();
    check.note("exhaustive", json!("per small graph: all schedules up to the cap (see exhaustive_graphs_fully_explored / exhaustive_graphs)"));
    check.finish()
}
