//! C38 — closest-key enumeration is complete and sorted.
//!
//! Real code driven: `KBucketsTable::closest_keys` and `KBucketsTable::closest` (the two users of
//! `ClosestIter` / `ClosestBucketsIter`) through the forwarding `verif::kbucket::Table` facade, on
//! tables filled through the real `Entry` API.
//!
//! Two table families, reported under different signature prefixes because their reachability
//! differs:
//!   * `hashed:` keys are `KBucketKey<PeerId>` (SHA-256 of a peer id) exactly as in
//!     `kad::Behaviour`'s routing table; targets are hashed peer/record keys, the local key and
//!     stored keys. This is what a user of the public API can produce.
//!   * `raw:` keys are `KeyBytes` placed at chosen XOR distances from the local key (all 256
//!     buckets, including bucket 0 = distance 1 and bucket 1 = distances 2,3), targets at edge
//!     distances (0, 1, 2, 3, 2^k, 2^k±1, all-ones) from the local key and from stored keys.
//!     `KeyBytes` values can be obtained publicly (`KBucketKey::for_distance`) but cannot be put
//!     into a `Behaviour`'s table; this family needs the cfg(libp2p_verif) facade.
//!
//! Oracle (independent of the iterator): stored set = `peek()` of the table (taken after all due
//! pending entries were applied; the virtual clock is frozen so the set cannot change during the
//! enumeration, and peek-before == peek-after is asserted). Output must be a permutation of the
//! stored set — every key exactly once — and XOR distances to the target, computed on raw bytes in
//! the harness, must be non-decreasing.
use std::{collections::HashMap, num::NonZeroUsize, time::Duration};

use libp2p_identity::PeerId;
use libp2p_kad::{
    KBucketKey, NodeStatus,
    verif::kbucket::{InsertOutcome, KeyBytes, Table, clock},
};
use vmon::{Args, Check, Rng, Sig, catch, json};

use crate::util::*;

pub trait RKey: Clone + AsRef<KeyBytes> {
    fn raw(&self) -> B32;
}
impl RKey for KeyBytes {
    fn raw(&self) -> B32 {
        self.verif_raw()
    }
}
impl RKey for KBucketKey<PeerId> {
    fn raw(&self) -> B32 {
        peer_key_raw(self)
    }
}

fn edge_distance(rng: &mut Rng) -> B32 {
    match rng.below(10) {
        0 => [0u8; 32],
        1 => pow2(0),
        2 => pow2(1),
        3 => {
            let mut b = pow2(1);
            b[31] |= 1;
            b
        } // 3
        4 => [0xff; 32],
        5 => pow2(rng.below(256) as u32),
        6 => ones_below(rng.below(256) as u32),
        7 => {
            let mut b = pow2(1 + rng.below(255) as u32);
            b[31] |= 1;
            b
        } // 2^k + 1 (odd)
        _ => {
            let i = rng.below(256) as u32;
            rand_with_top_bit(rng, i)
        }
    }
}

struct Outcome {
    stored: usize,
    buckets_used: usize,
    dup: bool,
}

/// Run both enumerations for one target and judge them.
fn judge<K: RKey>(check: &Check, family: &str, t: &mut Table<K>, local: &B32, target_raw: &B32, target: &KeyBytes, witness: &dyn Fn(&Table<K>) -> vmon::Value) -> Option<Outcome> {
    let before = t.peek();
    let r = catch(|| {
        let a = t.closest_keys(target);
        let b: Vec<K> = t.closest(target).into_iter().map(|e| e.0).collect();
        (a, b)
    });
    let (keys, views) = match r {
        Err(p) => {
            check.violation(format!("{family}:panic@{}", p.site()), format!("panic: {}", p.msg), witness(t));
            return None;
        }
        Ok(x) => x,
    };
    let after = t.peek();
    let stored: Vec<(B32, usize)> = after.iter().flat_map(|b| b.nodes.iter().map(move |n| (n.0.raw(), b.index))).collect();
    let stored_before: Vec<B32> = before.iter().flat_map(|b| b.nodes.iter().map(|n| n.0.raw())).collect();
    if stored_before != stored.iter().map(|s| s.0).collect::<Vec<_>>() {
        check.inconclusive("table changed during enumeration although the clock is frozen (pending applied?)");
        return None;
    }
    let bucket_of: HashMap<B32, usize> = stored.iter().cloned().collect();
    let mut dup = false;
    for (name, out) in [("closest_keys", &keys), ("closest", &views)] {
        let raws: Vec<B32> = out.iter().map(|k| k.raw()).collect();
        let mut seen: HashMap<B32, u32> = HashMap::new();
        for r in &raws {
            *seen.entry(*r).or_default() += 1;
        }
        for (r, n) in &seen {
            match bucket_of.get(r) {
                None => check.violation(format!("{family}:{name}:unknown-key-enumerated"), format!("{name} yields {} which is not stored", short(r)), witness(t)),
                Some(b) if *n > 1 => {
                    dup = true;
                    check.violation(
                        format!("{family}:{name}:key-enumerated-twice:bucket{b}"),
                        format!("{name} yields key {} (bucket {b}, distance {} from local) {n} times; d(local,target)={}", short(r), short(&xor32(local, r)), short(&xor32(local, target_raw))),
                        witness(t),
                    )
                }
                _ => {}
            }
        }
        for (r, b) in &stored {
            if !seen.contains_key(r) {
                check.violation(format!("{family}:{name}:stored-key-missing"), format!("{name} does not yield stored key {} (bucket {b}); d(local,target)={}", short(r), short(&xor32(local, target_raw))), witness(t));
                break;
            }
        }
        for w in raws.windows(2) {
            let (d0, d1) = (xor32(&w[0], target_raw), xor32(&w[1], target_raw));
            if d0 > d1 {
                check.violation(
                    format!("{family}:{name}:not-sorted"),
                    format!("{name}: distance {} (bucket {:?}) is followed by smaller distance {} (bucket {:?})", short(&d0), bucket_of.get(&w[0]), short(&d1), bucket_of.get(&w[1])),
                    witness(t),
                );
                break;
            }
        }
    }
    Some(Outcome { stored: stored.len(), buckets_used: after.iter().filter(|b| !b.nodes.is_empty()).count(), dup })
}

fn fill<K: RKey>(t: &mut Table<K>, keys: &[K], rng: &mut Rng, check: &Check) {
    for (i, k) in keys.iter().enumerate() {
        let st = if rng.bool() { NodeStatus::Connected } else { NodeStatus::Disconnected };
        match t.insert(k, i as u32, st) {
            InsertOutcome::Inserted => check.count("inserted", 1),
            InsertOutcome::Pending { .. } => check.count("insert_pending", 1),
            InsertOutcome::Full => check.count("insert_full", 1),
            InsertOutcome::NotAbsent(_) => check.count("insert_not_absent", 1),
        }
        // occasional status churn / removal so that bucket order is not insertion order
        if rng.chance(1, 6) {
            let j = rng.usize(i + 1);
            let _ = t.update(&keys[j], if rng.bool() { NodeStatus::Connected } else { NodeStatus::Disconnected });
        }
        if rng.chance(1, 20) {
            let j = rng.usize(i + 1);
            let _ = t.remove(&keys[j]);
        }
    }
}

fn bucket_size(rng: &mut Rng) -> NonZeroUsize {
    NonZeroUsize::new(match rng.below(6) {
        0 => 1,
        1 => 2,
        2 => 20,
        3 => 21 + rng.usize(10), // larger than K_VALUE: SmallVec spills
        _ => 1 + rng.usize(8),
    })
    .unwrap()
}

fn hashed_case(check: &Check, rng: &mut Rng) {
    clock::freeze();
    let local = KBucketKey::from(rand_peer(rng));
    let local_raw = local.raw();
    let bs = bucket_size(rng);
    let timeout = Duration::from_secs(*rng.pick(&[0u64, 1, 60]));
    let mut t: Table<KBucketKey<PeerId>> = Table::new(local, bs, timeout);
    let n = match rng.below(4) {
        0 => rng.usize(4),
        1 => 200,
        _ => rng.usize(80),
    };
    let keys: Vec<_> = (0..n).map(|_| KBucketKey::from(rand_peer(rng))).collect();
    fill(&mut t, &keys, rng, check);
    clock::advance(timeout + Duration::from_secs(1));
    let _ = t.snapshot(); // apply everything that is due
    while t.take_applied_pending().is_some() {}
    let ntargets = 1 + rng.usize(4);
    let mut sig = Sig::new().bytes(&local_raw).u64(bs.get() as u64);
    let mut stored = 0;
    for _ in 0..ntargets {
        let (traw, tk, kind): (B32, KeyBytes, &str) = match rng.below(5) {
            0 => (local_raw, local.into(), "local"),
            1 if !keys.is_empty() => {
                let k = rng.pick(&keys);
                (k.raw(), (*k).into(), "stored-or-offered")
            }
            2 => {
                let k: KBucketKey<Vec<u8>> = KBucketKey::new(rbytes(rng, 40));
                let mut r = [0u8; 32];
                r.copy_from_slice(k.hashed_bytes());
                (r, k.into(), "record-key")
            }
            _ => {
                let k = KBucketKey::from(rand_peer(rng));
                (k.raw(), k.into(), "peer")
            }
        };
        let lr = local_raw;
        let bsz = bs.get();
        let w = move |t: &Table<KBucketKey<PeerId>>| {
            json!({"family": "hashed", "local": short(&lr), "bucket_size": bsz, "target": short(&traw), "target_kind": kind,
                "table": t.peek().iter().map(|b| json!({"bucket": b.index, "keys": b.nodes.iter().map(|n| short(&n.0.raw())).collect::<Vec<_>>() })).collect::<Vec<_>>()})
        };
        if let Some(o) = judge(check, "hashed", &mut t, &local_raw, &traw, &tk, &w) {
            stored = o.stored;
            check.count(&format!("target_{kind}"), 1);
            check.distinct("hashed_buckets_used", o.buckets_used as u64);
            sig.push(&traw);
        }
    }
    check.case(sig.0, stored >= 2);
    if stored >= 2 && check.counter("hashed_samples") < 2 {
        check.count("hashed_samples", 1);
        check.sample(json!({"family": "hashed", "stored_keys": stored, "bucket_size": bs.get(), "targets": ntargets}));
    }
    clock::unfreeze();
}

fn raw_case(check: &Check, rng: &mut Rng) {
    clock::freeze();
    let local_raw = if rng.chance(1, 4) { edge_distance(rng) } else { rand_b32(rng) };
    let local = raw_key(&local_raw);
    let bs = bucket_size(rng);
    let timeout = Duration::from_secs(*rng.pick(&[0u64, 1, 60]));
    let mut t: Table<KeyBytes> = Table::new(local, bs, timeout);
    // distances: a few hot buckets (incl. the tiny ones) + spread
    let hot: Vec<u32> = (0..1 + rng.usize(4)).map(|_| if rng.chance(1, 3) { rng.below(4) as u32 } else { rng.below(256) as u32 }).collect();
    let n = match rng.below(4) {
        0 => 1 + rng.usize(4),
        1 => 150,
        _ => rng.usize(60),
    };
    let mut keys = vec![];
    for _ in 0..n {
        let i = if rng.chance(2, 3) { *rng.pick(&hot) } else { rng.below(256) as u32 };
        let d = rand_with_top_bit(rng, i);
        keys.push(raw_key(&xor32(&local_raw, &d)));
    }
    if rng.chance(1, 2) {
        keys.push(raw_key(&xor32(&local_raw, &pow2(0)))); // the only key of bucket 0
    }
    rng.shuffle(&mut keys);
    fill(&mut t, &keys, rng, check);
    clock::advance(timeout + Duration::from_secs(1));
    let _ = t.snapshot();
    while t.take_applied_pending().is_some() {}
    let ntargets = 1 + rng.usize(4);
    let mut sig = Sig::new().bytes(&local_raw).u64(bs.get() as u64);
    let mut stored = 0;
    for _ in 0..ntargets {
        let (traw, kind): (B32, &str) = match rng.below(6) {
            0 => (local_raw, "local"),
            1 if !keys.is_empty() => (rng.pick(&keys).raw(), "stored-or-offered"),
            2 if !keys.is_empty() => {
                let k = rng.pick(&keys).raw();
                (xor32(&k, &edge_distance(rng)), "edge-distance-from-stored")
            }
            3 => (rand_b32(rng), "random"),
            _ => (xor32(&local_raw, &edge_distance(rng)), "edge-distance-from-local"),
        };
        let tk = raw_key(&traw);
        let lr = local_raw;
        let bsz = bs.get();
        let w = move |t: &Table<KeyBytes>| {
            json!({"family": "raw", "local": short(&lr), "bucket_size": bsz, "target": short(&traw), "target_kind": kind, "d_local_target": short(&xor32(&lr, &traw)),
                "table": t.peek().iter().map(|b| json!({"bucket": b.index, "keys": b.nodes.iter().map(|n| short(&n.0.raw())).collect::<Vec<_>>() })).collect::<Vec<_>>()})
        };
        if let Some(o) = judge(check, "raw", &mut t, &local_raw, &traw, &tk, &w) {
            stored = o.stored;
            check.count(&format!("target_{kind}"), 1);
            check.distinct("raw_buckets_used", o.buckets_used as u64);
            if o.dup {
                check.count("raw_cases_with_duplicate", 1);
            }
            sig.push(&traw);
        }
    }
    check.case(sig.0, stored >= 2);
    if stored >= 2 && check.counter("raw_samples") < 3 {
        check.count("raw_samples", 1);
        check.sample(json!({"family": "raw", "stored_keys": stored, "bucket_size": bs.get(), "hot_buckets": hot, "targets": ntargets}));
    }
    clock::unfreeze();
}

pub fn run(args: &Args) -> i32 {
    let check: &'static Check = Box::leak(Box::new(Check::new(
        args,
        "exploration",
        "PRNG tables (bucket size 1..30, 0-200 keys inserted/updated/removed through the Entry API) x 1-4 targets each; family hashed: Key<PeerId> tables with local/stored/peer/record-key targets; \
         family raw: KeyBytes at chosen distances over all 256 buckets (incl. buckets 0-3) with targets at edge distances from local/stored keys. Non-trivial = table with >= 2 stored keys; distinct by (local, bucket size, targets)",
    )));
    let n = args.extra.get("budget").map(|b| if b == "tiny" { 3 } else { 500 }).unwrap_or(args.tier.pick(12_000, 400_000));
    let dog = Dog::start(check, if args.extra.get("budget").is_some() { 3_600 } else { 60 });
    vmon::par_cases(check, n, args.threads, |i, rng| {
        dog.enter(|| format!("case {i}"));
        if i % 3 == 0 { hashed_case(check, rng) } else { raw_case(check, rng) }
        dog.leave();
    });
    dog.stop();
    check.note("exhaustive", json!(false));
    check.note("reachability", json!("signatures starting with 'hashed:' are reachable with the public API (Key<PeerId> tables); 'raw:' needs KeyBytes tables (facade only)"));
    check.finish()
}
