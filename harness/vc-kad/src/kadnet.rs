//! One real kad node (server mode, MemoryStore) + raw peers speaking /ipfs/kad/1.0.0 by hand
//! (`vmon::pb`, one request per substream).
//!
//! C43 oracle: an ADD_PROVIDER is reflected in `store.providers(key)` only if the announced provider is
//! the sending peer (and not the local node); a PUT_VALUE whose publisher is the local node never changes
//! the locally stored record.
//! C42 (wire half) oracle, one-sided stamps (`t_after` is taken after the net is quiescent, i.e. after the
//! node stored the record): a record stored because a peer sent it with ttl > 0 has
//! `expires <= t_after + ttl`; with a local record TTL configured `expires <= t_after + record_ttl`;
//! `expires == None` only if the peer gave no ttl and no local TTL is configured.
use std::time::{Duration, Instant};

use either::Either;
use libp2p_core::{Multiaddr, multiaddr::Protocol};
use libp2p_identity::PeerId;
use libp2p_kad as kad;
use libp2p_kad::store::RecordStore;
use libp2p_swarm::{StreamProtocol, SwarmEvent, dial_opts::DialOpts};
use vmon::{Args, Check, Rng, Sig, json, pb::Msg};
use vnet::{Net, Raw, RawCtl, RawEvent};

type B = Either<kad::Behaviour<kad::store::MemoryStore>, Raw>;
type Ev = Either<kad::Event, RawEvent>;
const KAD: &str = "/ipfs/kad/1.0.0";

fn mem(n: u64) -> Multiaddr {
    Multiaddr::empty().with(Protocol::Memory(n))
}

struct Rig {
    net: Net<B>,
    raw: Vec<Option<RawCtl>>,
    tag: u64,
    /// `StoreInserts::FilterBoth`: the behaviour does not store inbound records itself but hands them to the
    /// application; the rig plays an application that accepts everything, following the documented procedure
    /// (`store_mut().put(record)` / `store_mut().add_provider(record)` with the record carried by the event)
    filter_both: bool,
    pub filtered_records: u64,
}

impl Rig {
    fn new(rng: &mut Rng, record_ttl: Option<Duration>, provider_ttl: Option<Duration>, n_raw: usize, filter_both: bool) -> Rig {
        let chunking = rng.chance(1, 4);
        let mut net: Net<B> = Net::new(rng.next_u64(), chunking);
        net.add_node(
            vnet::keypair(rng.next_u64()),
            |k, _| {
                let id = k.public().to_peer_id();
                let mut cfg = kad::Config::new(StreamProtocol::new(KAD));
                if filter_both {
                    cfg.set_record_filtering(kad::StoreInserts::FilterBoth);
                }
                cfg.set_record_ttl(record_ttl).set_provider_record_ttl(provider_ttl).set_publication_interval(None).set_replication_interval(None).set_provider_publication_interval(None).set_periodic_bootstrap_interval(None);
                let mut b = kad::Behaviour::with_config(id, kad::store::MemoryStore::new(id), cfg);
                b.set_mode(Some(kad::Mode::Server));
                Either::Left(b)
            },
            |c| c.with_idle_connection_timeout(Duration::from_secs(3600)),
        );
        net.swarm(0).listen_on(mem(100)).unwrap();
        let mut raw = vec![None];
        for i in 1..=n_raw {
            let mut ctl = None;
            net.add_node(
                vnet::keypair(rng.next_u64()),
                |_, exec| {
                    let (r, c) = Raw::new(vec![KAD.to_string()], exec);
                    ctl = Some(c);
                    Either::Right(r)
                },
                |c| c.with_idle_connection_timeout(Duration::from_secs(3600)),
            );
            net.swarm(i).listen_on(mem(100 + i as u64)).unwrap();
            raw.push(ctl);
        }
        Rig { net, raw, tag: 1, filter_both, filtered_records: 0 }
    }
    fn kad(&mut self) -> &mut kad::Behaviour<kad::store::MemoryStore> {
        match self.net.swarm(0).behaviour_mut() {
            Either::Left(k) => k,
            _ => unreachable!(),
        }
    }
    fn run(&mut self) -> bool {
        let mut handed: Vec<kad::InboundRequest> = vec![];
        let mut sink = |_: &mut Net<B>, i: usize, ev: SwarmEvent<Ev>| {
            if i == 0
                && let SwarmEvent::Behaviour(Either::Left(kad::Event::InboundRequest { request })) = ev
            {
                handed.push(request);
            }
        };
        let ok = self.net.run(400_000, &mut sink);
        if self.filter_both {
            for r in handed {
                match r {
                    kad::InboundRequest::PutRecord { record: Some(rec), .. } => {
                        self.filtered_records += 1;
                        let _ = self.kad().store_mut().put(rec);
                    }
                    kad::InboundRequest::AddProvider { record: Some(rec) } => {
                        self.filtered_records += 1;
                        let _ = self.kad().store_mut().add_provider(rec);
                    }
                    _ => {}
                }
            }
        }
        ok
    }
    fn connect_all(&mut self) -> bool {
        for i in 1..self.raw.len() {
            let _ = self.net.swarm(i).dial(DialOpts::unknown_peer_id().address(mem(100)).build());
            self.net.touch(i);
        }
        self.run()
    }
    /// one request on a fresh substream; returns the response frames (if any) after quiescence
    fn request(&mut self, from: usize, msg: &Msg) -> Option<Vec<Vec<u8>>> {
        let p0 = self.net.peer(0);
        let ctl = self.raw[from].clone().unwrap();
        let tag = self.tag;
        self.tag += 1;
        ctl.open(p0, None, KAD, tag);
        self.net.touch(from);
        if !self.run() {
            return None;
        }
        let s = ctl.by_tag(tag)?;
        s.write(vmon::pb::frame(&msg.encode()));
        if !self.run() {
            return None;
        }
        let frames = s.take_frames();
        s.close();
        self.run();
        Some(frames)
    }
}

fn record_msg(key: &[u8], value: &[u8], publisher: Option<&PeerId>, ttl: u32) -> Msg {
    let mut r = Msg::new().bytes(1, key).bytes(2, value);
    if let Some(p) = publisher {
        r = r.bytes(666, p.to_bytes());
    }
    if ttl > 0 {
        r = r.varint(777, ttl as u64);
    }
    // PUT_VALUE = 0 (proto3 default: omitted), key, record
    Msg::new().bytes(2, key).msg(3, &r)
}

fn add_provider_msg(key: &[u8], provider: &PeerId, addr: &Multiaddr) -> Msg {
    let peer = Msg::new().bytes(1, provider.to_bytes()).bytes(2, addr.to_vec()).varint(3, 1);
    Msg::new().varint(1, 2).bytes(2, key).msg(9, &peer)
}

pub fn run_c43(args: &Args) -> i32 {
    let check = Check::new(
        args,
        "exploration",
        "PRNG sequences of hand-encoded ADD_PROVIDER (provider in {sender, another raw peer, a stranger, the node itself}) and PUT_VALUE \
         (publisher in {none, sender, stranger, the node itself}) requests from 2-3 raw peers to a real kad node in server mode; store read after \
         every request; non-trivial = history containing an illegitimate and a legitimate request; distinct by request sequence",
    );
    let cases = args.tier.pick(500u64, 40_000);
    vmon::par_cases_timed(&check, cases, args.threads, args.tier.pick(35.0, 400.0), |case_idx, rng: &mut Rng| {
        let n_raw = 2 + rng.usize(2);
        let filter_both = rng.chance(1, 3);
        let mut rig = Rig::new(rng, None, Some(Duration::from_secs(3600)), n_raw, filter_both);
        if !rig.connect_all() {
            check.inconclusive("setup not quiescent");
            return;
        }
        let local = rig.net.peer(0);
        let stranger = vnet::keypair(rng.next_u64()).public().to_peer_id();
        let keys: Vec<Vec<u8>> = (0..3).map(|i| format!("key{i}").into_bytes()).collect();
        // a locally published record that PUT_VALUE with publisher == local must not touch
        let local_key = b"local-record".to_vec();
        let local_rec = kad::Record { key: kad::RecordKey::new(&local_key), value: b"original".to_vec(), publisher: Some(local), expires: None };
        rig.kad().store_mut().put(local_rec.clone()).expect("put");
        let mut sig = Sig::new();
        let (mut legit, mut illegit) = (0u64, 0u64);
        let mut history: Vec<String> = vec![];
        if filter_both {
            history.push("node runs StoreInserts::FilterBoth; the application stores every record handed to it".into());
        }
        for _ in 0..rng.range(4, 14) {
            let from = 1 + rng.usize(n_raw);
            let sender = rig.net.peer(from);
            if rng.chance(2, 3) {
                let key = keys[rng.usize(keys.len())].clone();
                let kind = rng.usize(4);
                let provider = match kind {
                    0 => sender,
                    1 => rig.net.peer(1 + (from % n_raw)),
                    2 => stranger,
                    _ => local,
                };
                sig.push_u64(10 + kind as u64);
                let rk = kad::RecordKey::new(&key);
                let before: Vec<PeerId> = rig.kad().store_mut().providers(&rk).into_iter().map(|p| p.provider).collect();
                history.push(format!("p{from}: ADD_PROVIDER key={} provider={}", String::from_utf8_lossy(&key), ["sender", "other-raw-peer", "stranger", "local-node"][kind]));
                if rig.request(from, &add_provider_msg(&key, &provider, &mem(100 + from as u64))).is_none() {
                    check.inconclusive("request not quiescent");
                    return;
                }
                let after: Vec<PeerId> = rig.kad().store_mut().providers(&rk).into_iter().map(|p| p.provider).collect();
                let wit = json!({"case": case_idx, "history": history, "providers_before": before.iter().map(|p| p.to_string()).collect::<Vec<_>>(), "providers_after": after.iter().map(|p| p.to_string()).collect::<Vec<_>>()});
                let newly: Vec<&PeerId> = after.iter().filter(|p| !before.contains(p)).collect();
                if provider == sender && provider != local {
                    legit += 1;
                    if newly.iter().any(|p| **p != sender) {
                        check.violation("add-provider-stored-other-peer", "a legitimate ADD_PROVIDER added a provider other than the sender".to_string(), wit.clone());
                    }
                } else {
                    illegit += 1;
                    if !newly.is_empty() || after.len() != before.len() {
                        let sigs = ["", "add-provider-accepted-for-other-peer", "add-provider-accepted-for-stranger", "add-provider-accepted-for-local-node"];
                        check.violation(sigs[kind], format!("ADD_PROVIDER announcing {} (not the sender) changed the provider set", ["sender", "another peer", "a stranger", "the local node"][kind]), wit.clone());
                    }
                }
                if after.contains(&local) && !before.contains(&local) {
                    check.violation("local-node-stored-as-remote-provider", "the local node was stored as a provider because a peer announced it".to_string(), wit);
                }
            } else {
                let kind = rng.usize(4);
                let publisher = match kind {
                    0 => None,
                    1 => Some(sender),
                    2 => Some(stranger),
                    _ => Some(local),
                };
                sig.push_u64(20 + kind as u64);
                // target either the locally published key or a fresh one
                // target the locally published key, or a key the node may or may not hold a record for; for the
                // local-publisher case the local record is sometimes removed first (a stale replica must not
                // resurrect it, a peer must not plant a record "owned" by the node)
                let key = if rng.bool() { local_key.clone() } else { keys[rng.usize(keys.len())].clone() };
                let removed_first = kind == 3 && key == local_key && rng.chance(1, 3);
                if removed_first {
                    rig.kad().remove_record(&kad::RecordKey::new(&local_key));
                    history.push("local: remove_record(local-record)".into());
                }
                history.push(format!("p{from}: PUT_VALUE key={} publisher={}", String::from_utf8_lossy(&key), ["none", "sender", "stranger", "local-node"][kind]));
                let before = rig.kad().store_mut().get(&kad::RecordKey::new(&key)).map(|r| r.into_owned());
                if rig.request(from, &record_msg(&key, b"overwritten-by-peer", publisher.as_ref(), 0)).is_none() {
                    check.inconclusive("request not quiescent");
                    return;
                }
                let after = rig.kad().store_mut().get(&kad::RecordKey::new(&key)).map(|r| r.into_owned());
                if kind == 3 {
                    illegit += 1;
                    check.count(if before.is_some() { "local_publisher_puts_on_held_key" } else { "local_publisher_puts_on_absent_key" }, 1);
                    if after != before {
                        check.violation(
                            if before.is_some() { "put-value-with-local-publisher-changed-record" } else { "put-value-with-local-publisher-created-record" },
                            format!("PUT_VALUE naming the local node as publisher changed the local record: {:?} -> {:?}", before.map(|r| String::from_utf8_lossy(&r.value).to_string()), after.map(|r| String::from_utf8_lossy(&r.value).to_string())),
                            json!({"case": case_idx, "history": history}),
                        );
                    }
                    if removed_first {
                        rig.kad().store_mut().remove(&kad::RecordKey::new(&local_key));
                        let _ = rig.kad().store_mut().put(local_rec.clone());
                    }
                } else {
                    legit += 1;
                    // restore the local record for later steps if a peer legitimately replaced it
                    if key == local_key {
                        let _ = rig.kad().store_mut().put(local_rec.clone());
                    }
                }
            }
        }
        check.case(sig.0, legit > 0 && illegit > 0);
        check.count("legitimate_requests", legit);
        check.count("illegitimate_requests", illegit);
        check.count("histories_with_filterboth", filter_both as u64);
        check.distinct("distinct_interleavings", rig.net.trace.0);
        if check.want_sample() && legit > 1 && illegit > 1 {
            check.sample(json!({"history": history}));
        }
    });
    check.finish()
}

/// C42 first half (records received over the wire), feeding the caller's `Check`
pub fn c42_part_a(check: &Check, args: &Args) {
    let cases = if args.extra.contains_key("budget") { 60 } else { args.tier.pick(600u64, 40_000) };
    vmon::par_cases_timed(check, cases, args.threads, args.tier.pick(35.0, 400.0), |case_idx, rng: &mut Rng| {
        let cfg_ttl = [None, Some(3u64), Some(100)][(case_idx % 3) as usize];
        let ttl = [0u32, 1, 5, 50, 1000][((case_idx / 3) % 5) as usize];
        let with_publisher = (case_idx / 15) % 2 == 1;
        let filter_both = (case_idx / 30) % 2 == 1;
        let mut rig = Rig::new(rng, cfg_ttl.map(Duration::from_secs), None, 1, filter_both);
        if !rig.connect_all() {
            check.inconclusive("setup not quiescent");
            return;
        }
        let sender = rig.net.peer(1);
        let key = format!("k{case_idx}").into_bytes();
        let resp = rig.request(1, &record_msg(&key, b"v", if with_publisher { Some(&sender) } else { None }, ttl));
        let t_after = Instant::now();
        if resp.is_none() {
            check.inconclusive("request not quiescent");
            return;
        }
        let stored = rig.kad().store_mut().get(&kad::RecordKey::new(&key)).map(|r| r.into_owned());
        let wit = json!({"case": case_idx, "record_ttl_s": cfg_ttl, "received_ttl_s": ttl, "publisher": with_publisher, "store_inserts": if filter_both { "FilterBoth (application stores the record carried by the event)" } else { "Unfiltered" },
            "stored_expires_in_s": stored.as_ref().map(|r| r.expires.map(|e| e.saturating_duration_since(t_after).as_secs_f64()))});
        let Some(rec) = stored else {
            // a record with ttl elapsed may legitimately not be stored; otherwise it is a setup problem
            check.inconclusive("record not stored");
            return;
        };
        match rec.expires {
            None => {
                if ttl > 0 {
                    check.violation("received-expiry-dropped", format!("record received with ttl {ttl}s is stored without expiry (local record_ttl {cfg_ttl:?})"), wit.clone());
                }
                if cfg_ttl.is_some() {
                    check.violation("local-ttl-not-applied", format!("record stored without expiry although record_ttl is {cfg_ttl:?}"), wit.clone());
                }
            }
            Some(e) => {
                if ttl > 0 && e > t_after + Duration::from_secs(ttl as u64) {
                    check.violation("expiry-later-than-received", format!("stored expiry is {:.1}s after storage, peer gave ttl {ttl}s", e.saturating_duration_since(t_after).as_secs_f64()), wit.clone());
                }
                if let Some(c) = cfg_ttl
                    && e > t_after + Duration::from_secs(c)
                {
                    check.violation("expiry-later-than-local-ttl", format!("stored expiry is {:.1}s after storage, local record_ttl is {c}s", e.saturating_duration_since(t_after).as_secs_f64()), wit.clone());
                }
            }
        }
        check.case(Sig::new().u64(case_idx % 60).u64(rig.net.trace.0).0, true);
        check.distinct("config_ttl_publisher_filter_cells", case_idx % 60);
        check.count("part_a_records_handed_to_application_filterboth", rig.filtered_records);
        check.count("part_a_records_received_and_stored", 1);
        if check.want_sample() && case_idx % 7 == 0 {
            check.sample(wit);
        }
    });
}

/// C42, sending side in a real swarm: a node hands a record that has an expiry to a peer through the public API
/// (`put_record_to`, the caching step after a `get_record`; `put_record` for its own records) and the raw peer reads
/// the PUT_VALUE off the wire: its record must carry a ttl > 0 whenever the record given to the API had an expiry
/// (local record TTL configured or not).
pub fn c42_part_c(check: &Check, args: &Args) {
    let cases = if args.extra.contains_key("budget") { 12 } else { args.tier.pick(300u64, 20_000) };
    vmon::par_cases_timed(check, cases, args.threads, args.tier.pick(20.0, 240.0), |case_idx, rng: &mut Rng| {
        let cfg_ttl = [None, Some(3u64), Some(100)][(case_idx % 3) as usize];
        let life_s = [2u64, 50, 4000][((case_idx / 3) % 3) as usize];
        let via_put_to = (case_idx / 9) % 2 == 0;
        let mut rig = Rig::new(rng, cfg_ttl.map(Duration::from_secs), None, 1, false);
        if !rig.connect_all() {
            check.inconclusive("setup not quiescent");
            return;
        }
        let p1 = rig.net.peer(1);
        let key = format!("out{case_idx}").into_bytes();
        let rec = kad::Record { key: kad::RecordKey::new(&key), value: b"v".to_vec(), publisher: None, expires: if via_put_to { Some(Instant::now() + Duration::from_secs(life_s)) } else { None } };
        let had_expiry = rec.expires.is_some() || cfg_ttl.is_some();
        if via_put_to {
            rig.kad().put_record_to(rec, std::iter::once(p1), kad::Quorum::One);
        } else {
            // own record: its expiry comes from the configured record TTL (none => legitimately sent without)
            rig.kad().add_address(&p1, mem(101));
            if rig.kad().put_record(rec, kad::Quorum::One).is_err() {
                check.inconclusive("put_record refused");
                return;
            }
        }
        rig.net.touch(0);
        // the query may first look for closest peers (FIND_NODE to the raw peer): answer nothing, just collect frames
        let mut seen_put: Option<Msg> = None;
        for _ in 0..6 {
            if !rig.run() {
                check.inconclusive("not quiescent");
                return;
            }
            let ctl = rig.raw[1].clone().unwrap();
            let p0 = rig.net.peer(0);
            for st in ctl.find_all(&p0, KAD, true) {
                for f in st.take_frames() {
                    if let Some(m) = Msg::decode(&f) {
                        let ty = m.get_varint(1).unwrap_or(0);
                        if ty == 0 && m.get_bytes(3).is_some() {
                            seen_put = Some(m);
                        } else if ty == 4 {
                            // FIND_NODE: reply with an empty closer-peers list so that the query moves on
                            st.write(vmon::pb::frame(&Msg::new().varint(1, 4).encode()));
                        }
                    }
                }
            }
            if seen_put.is_some() {
                break;
            }
            rig.net.touch(1);
        }
        let Some(m) = seen_put else {
            check.inconclusive("no PUT_VALUE reached the raw peer");
            return;
        };
        let recm = m.get_bytes(3).and_then(Msg::decode);
        let ttl = recm.as_ref().and_then(|r| r.get_varint(777)).unwrap_or(0);
        let wit = json!({"case": case_idx, "api": if via_put_to { "put_record_to" } else { "put_record" }, "record_ttl_s": cfg_ttl, "record_expires_in_s": if via_put_to { Some(life_s) } else { None }, "ttl_on_wire": ttl});
        if via_put_to && ttl == 0 {
            check.violation("expiring-record-sent-with-ttl-0:put_record_to", format!("record handed to put_record_to with an expiry {life_s}s ahead reached the wire without ttl (local record_ttl {cfg_ttl:?})"), wit.clone());
        }
        if !via_put_to && cfg_ttl.is_some() && ttl == 0 {
            check.violation("expiring-record-sent-with-ttl-0:put_record", format!("own record published with record_ttl {cfg_ttl:?} reached the wire without ttl"), wit.clone());
        }
        if via_put_to && ttl > life_s {
            // not part of the statement (which only forbids "does not expire"): counted, not judged
            check.count("part_c_sent_with_longer_ttl_than_expiry_not_judged", 1);
        }
        check.case(Sig::new().u64(case_idx % 18).u64(rig.net.trace.0).0, had_expiry);
        check.count("part_c_put_value_requests_read_off_the_wire", 1);
        if check.want_sample() && case_idx % 5 == 0 {
            check.sample(wit);
        }
    });
}
