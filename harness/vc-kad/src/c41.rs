//! C41 — `MemoryStore` behaves like a bounded map (+ bounded provider lists).
//!
//! Real code driven: the public `RecordStore` API of `libp2p_kad::store::MemoryStore`
//! (`put/get/remove/records/retain`, `add_provider/providers/provided/remove_provider`) with small
//! generated limits.
//!
//! Oracle: a reference model written from the statement — `BTreeMap<key, record>` with
//! "put replaces / refused when value.len() >= max_value_bytes / new key refused once max_records
//! are stored", and per key an ordered provider list with "at most max_providers_per_key, re-add
//! updates in place (same index, new content), otherwise appended when there is room, ignored
//! when full". After EVERY operation the complete observable state of the real store (get of every
//! key of the universe, `records()`, `providers(k)` of every key, `provided()`) is compared with
//! the model.
//!
//! Not judged (statement silent): *when* `add_provider` may answer `Err(MaxProvidedKeys)` if
//! `max_provided_keys` is small (the doc comment and the implementation count different things);
//! such an `Err` only has to leave the store unchanged. In configurations where
//! `max_provided_keys` (1024) exceeds anything the history can reach, any `Err` from
//! `add_provider` is a violation (`add-provider-refused-below-any-limit`). The error *kind* of a
//! refused `put` is recorded but not judged. Order of `providers(k)` is judged only through the
//! in-place rule (index of a re-added provider does not change) and append-at-end for new ones.
use std::{
    collections::BTreeMap,
    time::Duration,
};

use libp2p_core::Multiaddr;
use libp2p_identity::PeerId;
use libp2p_kad::{
    ProviderRecord, Record, RecordKey,
    store::{MemoryStore, MemoryStoreConfig, RecordStore},
};
use vmon::{Args, Check, Rng, Sig, catch, json};
use web_time::Instant;

use crate::util::*;

#[derive(Clone, Debug, PartialEq)]
struct Prov {
    provider: usize, // index into peers; 0 = local
    expires: Option<u64>,
    addrs: u8,
}

#[derive(Clone, Debug, PartialEq)]
struct Rec {
    value: Vec<u8>,
    publisher: Option<usize>,
    expires: Option<u64>,
}

#[derive(Clone, Debug)]
enum Op {
    Put { k: usize, rec: Rec },
    Get { k: usize },
    Remove { k: usize },
    Retain { keep_mask: u8 },
    AddProvider { k: usize, p: Prov },
    RemoveProvider { k: usize, provider: usize },
}

struct World {
    base: Instant,
    keys: Vec<RecordKey>,
    peers: Vec<PeerId>,
    addr_sets: Vec<Vec<Multiaddr>>,
}

impl World {
    fn instant(&self, e: Option<u64>) -> Option<Instant> {
        e.map(|s| self.base + Duration::from_millis(s))
    }
    fn record(&self, k: usize, r: &Rec) -> Record {
        Record { key: self.keys[k].clone(), value: r.value.clone(), publisher: r.publisher.map(|i| self.peers[i]), expires: self.instant(r.expires) }
    }
    fn prov(&self, k: usize, p: &Prov) -> ProviderRecord {
        ProviderRecord { key: self.keys[k].clone(), provider: self.peers[p.provider], expires: self.instant(p.expires), addresses: self.addr_sets[p.addrs as usize].clone() }
    }
    fn same_prov(&self, k: usize, p: &Prov, got: &ProviderRecord) -> bool {
        got.key == self.keys[k] && got.provider == self.peers[p.provider] && got.expires == self.instant(p.expires) && got.addresses == self.addr_sets[p.addrs as usize]
    }
}

#[derive(Default)]
struct Model {
    records: BTreeMap<usize, Rec>,
    providers: BTreeMap<usize, Vec<Prov>>,
}

fn gen_op(rng: &mut Rng, nkeys: usize, npeers: usize, max_value: usize) -> Op {
    let k = rng.usize(nkeys);
    match rng.weighted(&[30, 8, 10, 3, 35, 14]) {
        0 => {
            // value lengths concentrated around the limit
            let len = match rng.below(4) {
                0 => max_value.saturating_sub(1),
                1 => max_value,
                2 => max_value + 1,
                _ => rng.usize(max_value + 3),
            };
            Op::Put { k, rec: Rec { value: rng.bytes(len), publisher: if rng.bool() { Some(rng.usize(npeers)) } else { None }, expires: if rng.bool() { Some(rng.below(100_000)) } else { None } } }
        }
        1 => Op::Get { k },
        2 => Op::Remove { k },
        3 => Op::Retain { keep_mask: rng.below(256) as u8 },
        4 => {
            // local provider over-represented
            let provider = if rng.chance(1, 3) { 0 } else { rng.usize(npeers) };
            Op::AddProvider { k, p: Prov { provider, expires: if rng.bool() { Some(rng.below(100_000)) } else { None }, addrs: rng.below(4) as u8 } }
        }
        _ => Op::RemoveProvider { k, provider: if rng.chance(1, 3) { 0 } else { rng.usize(npeers) } },
    }
}

/// Compare the complete observable state. Returns Some((signature, description)) on mismatch.
fn compare(w: &World, store: &MemoryStore, m: &Model, cfg: &MemoryStoreConfig) -> Option<(&'static str, String)> {
    // records via get
    for k in 0..w.keys.len() {
        let got = store.get(&w.keys[k]).map(|c| c.into_owned());
        let want = m.records.get(&k).map(|r| w.record(k, r));
        if got != want {
            let sig = match (&got, &want) {
                (None, Some(_)) => "get-lost-record",
                (Some(_), None) => "get-returns-removed-or-refused-record",
                _ => "get-not-latest-put",
            };
            return Some((sig, format!("get(key{k}) = {got:?}, model {want:?}")));
        }
    }
    // records()
    let mut all: Vec<Record> = store.records().map(|c| c.into_owned()).collect();
    if all.len() > cfg.max_records {
        return Some(("more-than-max-records", format!("{} records stored, max_records {}", all.len(), cfg.max_records)));
    }
    let mut want: Vec<Record> = m.records.iter().map(|(k, r)| w.record(*k, r)).collect();
    let keyf = |r: &Record| r.key.to_vec();
    all.sort_by_key(keyf);
    want.sort_by_key(keyf);
    if all != want {
        return Some(("records-iter-differs", format!("records() has {} entries, model {}", all.len(), want.len())));
    }
    if all.iter().any(|r| r.value.len() >= cfg.max_value_bytes) {
        return Some(("stored-oversized-value", "a stored value has >= max_value_bytes bytes".into()));
    }
    // providers(k)
    let mut want_provided: Vec<(usize, &Prov)> = vec![];
    let empty: Vec<Prov> = vec![];
    for k in 0..w.keys.len() {
        let got = store.providers(&w.keys[k]);
        let want = m.providers.get(&k).unwrap_or(&empty);
        if got.len() > cfg.max_providers_per_key {
            return Some(("more-than-max-providers", format!("providers(key{k}) lists {} > max_providers_per_key {}", got.len(), cfg.max_providers_per_key)));
        }
        let mut ids: Vec<_> = got.iter().map(|p| p.provider).collect();
        ids.sort();
        ids.dedup();
        if ids.len() != got.len() {
            return Some(("duplicate-provider", format!("providers(key{k}) lists a provider twice")));
        }
        if got.len() != want.len() {
            return Some((if got.len() < want.len() { "provider-lost" } else { "provider-unexpected" }, format!("providers(key{k}) has {} entries, model {}", got.len(), want.len())));
        }
        for (i, p) in want.iter().enumerate() {
            match got.iter().position(|g| g.provider == w.peers[p.provider]) {
                None => return Some(("provider-lost", format!("providers(key{k}) misses peer{}", p.provider))),
                Some(j) => {
                    if !w.same_prov(k, p, &got[j]) {
                        return Some(("provider-not-updated", format!("providers(key{k}) entry of peer{} = {:?}, model {:?}", p.provider, got[j], p)));
                    }
                    if j != i {
                        return Some(("provider-not-in-place", format!("providers(key{k}): peer{} at index {j}, model index {i}", p.provider)));
                    }
                }
            }
            if p.provider == 0 {
                want_provided.push((k, p));
            }
        }
    }
    // provided()
    let got: Vec<ProviderRecord> = store.provided().map(|c| c.into_owned()).collect();
    if got.len() != want_provided.len() {
        return Some((if got.len() > want_provided.len() { "provided-stale-entry" } else { "provided-missing-entry" }, format!("provided() has {} entries, the local node currently provides {} keys", got.len(), want_provided.len())));
    }
    for (k, p) in &want_provided {
        match got.iter().find(|g| g.key == w.keys[*k]) {
            None => return Some(("provided-missing-entry", format!("provided() misses key{k}"))),
            Some(g) => {
                if !w.same_prov(*k, p, g) {
                    return Some(("provided-not-current", format!("provided() entry for key{k} = {g:?}, current record {:?}", p)));
                }
            }
        }
    }
    None
}

fn one_case(check: &Check, case: u64, rng: &mut Rng) {
    let nkeys = 2 + rng.usize(5);
    let npeers = 2 + rng.usize(4);
    let big_provided_limit = !rng.chance(1, 5);
    let cfg = MemoryStoreConfig {
        max_records: rng.usize(nkeys + 1),
        max_value_bytes: rng.usize(9),
        max_providers_per_key: rng.usize(npeers + 1),
        max_provided_keys: if big_provided_limit { 1024 } else { 1 + rng.usize(nkeys) },
    };
    let w = World {
        base: Instant::now(),
        keys: (0..nkeys).map(|i| RecordKey::new(&[b'k', i as u8, (case & 0xff) as u8])).collect(),
        peers: (0..npeers).map(|_| rand_peer(rng)).collect(),
        addr_sets: vec![vec![], vec!["/ip4/10.0.0.1/tcp/1".parse().unwrap()], vec!["/ip4/10.0.0.2/tcp/2".parse().unwrap(), "/dns/a.example/udp/3/quic-v1".parse().unwrap()], vec!["/memory/9".parse().unwrap()]],
    };
    let mut store = MemoryStore::with_config(w.peers[0], cfg.clone());
    let mut m = Model::default();
    let nops = 20 + rng.usize(100);
    let mut ops: Vec<Op> = vec![];
    let mut sig = Sig::new();
    let mut hit_bound = false;
    let cfg_json = json!({"max_records": cfg.max_records, "max_value_bytes": cfg.max_value_bytes, "max_providers_per_key": cfg.max_providers_per_key, "max_provided_keys": cfg.max_provided_keys, "keys": nkeys, "peers": npeers});

    for step in 0..nops {
        let op = gen_op(rng, nkeys, npeers, cfg.max_value_bytes);
        ops.push(op.clone());
        let fail = |s: &str, what: String| {
            check.violation(s, what, json!({"config": cfg_json, "ops": format!("{:?}", ops), "failing_step": step}));
        };
        let r = catch(|| -> Option<(String, String)> {
            match &op {
                Op::Put { k, rec } => {
                    let res = store.put(w.record(*k, rec));
                    let too_large = rec.value.len() >= cfg.max_value_bytes;
                    let is_new = !m.records.contains_key(k);
                    let full = is_new && m.records.len() >= cfg.max_records;
                    check.count("op_put", 1);
                    if too_large || full {
                        hit_bound = true;
                        check.count(if too_large { "put_refused_value_too_large" } else { "put_refused_max_records" }, 1);
                        if res.is_ok() {
                            return Some((if too_large { "put-accepted-oversized-value" } else { "put-accepted-beyond-max-records" }.into(), format!("put(key{k}, {} bytes) = Ok with {} records stored", rec.value.len(), m.records.len())));
                        }
                        sig.push_u64(1);
                    } else {
                        if let Err(e) = res {
                            return Some(("put-refused-within-limits".into(), format!("put(key{k}, {} bytes) = Err({e}) with {} records stored, new key: {is_new}", rec.value.len(), m.records.len())));
                        }
                        if !is_new {
                            check.count("put_replaced", 1);
                        }
                        m.records.insert(*k, rec.clone());
                        sig.push_u64(2);
                    }
                }
                Op::Get { k } => {
                    check.count("op_get", 1);
                    let _ = store.get(&w.keys[*k]);
                    sig.push_u64(3);
                }
                Op::Remove { k } => {
                    check.count("op_remove", 1);
                    store.remove(&w.keys[*k]);
                    if m.records.remove(k).is_some() {
                        check.count("remove_hit", 1);
                    }
                    sig.push_u64(4);
                }
                Op::Retain { keep_mask } => {
                    check.count("op_retain", 1);
                    let keep = |key: &RecordKey| (keep_mask >> (key.as_ref()[1] & 7)) & 1 == 1;
                    store.retain(|key, _| keep(key));
                    m.records.retain(|k, _| keep(&w.keys[*k]));
                    sig.push_u64(5);
                }
                Op::AddProvider { k, p } => {
                    check.count("op_add_provider", 1);
                    let res = store.add_provider(w.prov(*k, p));
                    match res {
                        Err(e) => {
                            check.count("add_provider_err", 1);
                            if big_provided_limit {
                                return Some(("add-provider-refused-below-any-limit".into(), format!("add_provider(key{k}, peer{}) = Err({e}) with max_provided_keys 1024", p.provider)));
                            }
                            sig.push_u64(6);
                        }
                        Ok(()) => {
                            let list = m.providers.entry(*k).or_default();
                            if let Some(i) = list.iter().position(|x| x.provider == p.provider) {
                                list[i] = p.clone();
                                hit_bound = true;
                                check.count("provider_updated_in_place", 1);
                                sig.push_u64(7);
                            } else if list.len() < cfg.max_providers_per_key {
                                list.push(p.clone());
                                check.count("provider_appended", 1);
                                sig.push_u64(8);
                            } else {
                                hit_bound = true;
                                check.count("provider_ignored_list_full", 1);
                                sig.push_u64(9);
                            }
                            if list.is_empty() {
                                m.providers.remove(k);
                            }
                        }
                    }
                }
                Op::RemoveProvider { k, provider } => {
                    check.count("op_remove_provider", 1);
                    store.remove_provider(&w.keys[*k], &w.peers[*provider]);
                    if let Some(list) = m.providers.get_mut(k) {
                        let before = list.len();
                        list.retain(|x| x.provider != *provider);
                        if list.len() != before {
                            check.count("remove_provider_hit", 1);
                        }
                        if list.is_empty() {
                            m.providers.remove(k);
                        }
                    }
                    sig.push_u64(10);
                }
            }
            compare(&w, &store, &m, &cfg).map(|(s, d)| (s.to_string(), d))
        });
        match r {
            Err(p) => {
                fail(&format!("panic@{}", p.site()), format!("panic: {}", p.msg));
                break;
            }
            Ok(Some((s, d))) => {
                fail(&s, format!("after step {step} ({:?}): {d}", op));
                break;
            }
            Ok(None) => {}
        }
    }
    check.case(sig.0, hit_bound);
    check.distinct("configs_seen", Sig::new().u64(cfg.max_records as u64).u64(cfg.max_value_bytes as u64).u64(cfg.max_providers_per_key as u64).u64(cfg.max_provided_keys as u64).0);
    if hit_bound && check.want_sample() {
        check.sample(json!({"config": cfg_json, "ops": ops.len(), "first_ops": format!("{:?}", &ops[..ops.len().min(6)]),
            "final_records": m.records.len(), "final_provider_keys": m.providers.len()}));
    }
}

pub fn run(args: &Args) -> i32 {
    let check = Check::new(
        args,
        "exploration",
        "PRNG histories (20-120 ops: put/get/remove/retain/add_provider/remove_provider) over 2-6 keys and 2-5 peers (peer0 = local) with limits \
         max_records 0..=keys, max_value_bytes 0..=8, max_providers_per_key 0..=peers; full state compared with the reference model after every op. \
         Non-trivial = the history hit at least one bound (refused put, ignored provider on a full list, or in-place provider update); distinct by op/outcome sequence",
    );
    let n = args.extra.get("budget").map(|b| if b == "tiny" { 20 } else { 1_000 }).unwrap_or(args.tier.pick(60_000, 2_000_000));
    vmon::par_cases(&check, n, args.threads, |i, rng| one_case(&check, i, rng));
    check.note("exhaustive", json!(false));
    check.finish()
}
