//! C40 — XOR distance behaves as a metric with consistent bucket indices.
//!
//! Real code driven: `KBucketKey::{new, from, distance, for_distance, hashed_bytes}`,
//! `KeyBytes::{distance, for_distance}`, `KBucketDistance::ilog2`, and (for the bucket index)
//! the routing table through the `verif::kbucket::Table` facade (`bucket_of`, `insert`,
//! `snapshot` → `KBucketRef::range`).
//!
//! Oracle (independent): the 32 key bytes of every key are known to the harness (hashed keys:
//! SHA-256 of the preimage computed with the `sha2` crate directly; raw keys: the bytes given to
//! `KeyBytes::verif_from_raw`); distance, order, addition and highest-set-bit are computed on
//! big-endian byte arrays in `util.rs`, never with `U256`.
//!
//! Laws judged per triple (a, b, c) and edge distance D:
//!   identity        d(a,b) == 0  <=>  bytes(a) == bytes(b)
//!   value           d(a,b) == bytes(a) XOR bytes(b)   ("XOR distance")
//!   symmetry        d(a,b) == d(b,a)
//!   triangle        d(a,c) <= d(a,b) + d(b,c)   (256-bit add with carry in the harness)
//!   unidirectional  k = a.for_distance(D): d(a,k) == D, and d(a,x) != D for every x != k tried
//!   inverse         a.for_distance(d(a,b)) == b
//!   ilog2           == position of highest set bit of the distance, None iff zero
//!   bucket index    table with local key a: bucket_of(b) and the bucket b is stored in have
//!                   index == highest set bit of d(a,b); range() == [2^i, 2^(i+1)-1]; the local
//!                   key has no bucket
//! Not judged: that a hashed key's bytes are SHA-256(preimage) is used as ground truth only where
//! `hashed_bytes()` agrees with the harness' SHA-256 (a disagreement is reported as
//! `hashed-bytes-not-sha256`, since then no byte-level oracle is possible).
use std::{num::NonZeroUsize, time::Duration};

use libp2p_identity::PeerId;
use libp2p_kad::{
    KBucketDistance, KBucketKey, NodeStatus, U256,
    verif::kbucket::{InsertOutcome, KeyBytes, Table},
};
use vmon::{Args, Check, Rng, Sig, catch, json};

use crate::util::*;

#[derive(Clone)]
enum K {
    Peer(KBucketKey<PeerId>, B32),
    Vecs(KBucketKey<Vec<u8>>, B32),
    Raw(KeyBytes, B32),
}

impl K {
    fn raw(&self) -> &B32 {
        match self {
            K::Peer(_, r) | K::Vecs(_, r) | K::Raw(_, r) => r,
        }
    }
    fn kb(&self) -> KeyBytes {
        match self {
            K::Peer(k, _) => (*k).into(),
            K::Vecs(k, _) => k.clone().into(),
            K::Raw(k, _) => *k,
        }
    }
    fn kind(&self) -> &'static str {
        match self {
            K::Peer(..) => "peer",
            K::Vecs(..) => "vec",
            K::Raw(..) => "raw",
        }
    }
    /// distance through the typed public entry point of this key kind
    fn distance(&self, other: &K) -> KBucketDistance {
        let o = other.kb();
        match (self, other) {
            // exercise the Key<T> x Key<U> instantiations as well as Key<T> x KeyBytes
            (K::Peer(a, _), K::Peer(b, _)) => a.distance(b),
            (K::Peer(a, _), K::Vecs(b, _)) => a.distance(b),
            (K::Vecs(a, _), K::Peer(b, _)) => a.distance(b),
            (K::Peer(a, _), _) => a.distance(&o),
            (K::Vecs(a, _), _) => a.distance(&o),
            (K::Raw(a, _), K::Peer(b, _)) => a.distance(b),
            (K::Raw(a, _), _) => a.distance(&o),
        }
    }
    fn for_distance(&self, d: KBucketDistance) -> KeyBytes {
        match self {
            K::Peer(a, _) => a.for_distance(d),
            K::Vecs(a, _) => a.for_distance(d),
            K::Raw(a, _) => a.for_distance(d),
        }
    }
}

fn edge_value(rng: &mut Rng) -> B32 {
    match rng.below(8) {
        0 => [0u8; 32],
        1 => pow2(0),
        2 => [0xff; 32],
        3 => pow2(rng.below(256) as u32),
        4 => ones_below(rng.below(256) as u32),
        5 => pow2(255),
        6 => {
            // two bits
            let mut b = pow2(rng.below(256) as u32);
            let p = pow2(rng.below(256) as u32);
            for i in 0..32 {
                b[i] |= p[i];
            }
            b
        }
        _ => {
            let i = rng.below(256) as u32;
            rand_with_top_bit(rng, i)
        }
    }
}

fn gen_key(rng: &mut Rng, near: Option<&B32>, check: &Check) -> K {
    match rng.below(10) {
        0..=2 => {
            let p = rand_peer(rng);
            let k = KBucketKey::from(p);
            let want = sha256(&p.to_bytes());
            if k.hashed_bytes() != want {
                check.violation("hashed-bytes-not-sha256", "Key<PeerId>::hashed_bytes() differs from SHA-256(peer id bytes)", json!({"peer": p.to_string()}));
            }
            K::Peer(k, want)
        }
        3..=4 => {
            let n = rng.usize(40);
            let v = rng.bytes(n);
            let k = if rng.bool() { KBucketKey::new(v.clone()) } else { KBucketKey::from(v.clone()) };
            let want = sha256(&v);
            if k.hashed_bytes() != want {
                check.violation("hashed-bytes-not-sha256", "Key<Vec<u8>>::hashed_bytes() differs from SHA-256(preimage)", json!({"preimage": short(&v)}));
            }
            K::Vecs(k, want)
        }
        5..=6 => {
            let b = edge_value(rng);
            K::Raw(raw_key(&b), b)
        }
        _ => {
            // a key at an edge distance from `near` (or an edge key if there is no anchor)
            let e = edge_value(rng);
            let b = match near {
                Some(n) => xor32(n, &e),
                None => e,
            };
            K::Raw(raw_key(&b), b)
        }
    }
}

fn le(a: &B32, b: &B32) -> bool {
    a <= b // lexicographic on big-endian == numeric
}

struct Ctx<'a> {
    check: &'a Check,
    a: &'a K,
    b: &'a K,
    c: &'a K,
}
impl Ctx<'_> {
    fn witness(&self) -> vmon::Value {
        json!({
            "a": {"kind": self.a.kind(), "bytes": short(self.a.raw())},
            "b": {"kind": self.b.kind(), "bytes": short(self.b.raw())},
            "c": {"kind": self.c.kind(), "bytes": short(self.c.raw())},
        })
    }
    fn fail(&self, sig: &str, what: String) {
        self.check.violation(sig, what, self.witness());
    }
}

fn one_case(check: &Check, rng: &mut Rng) {
    let a = gen_key(rng, None, check);
    let b = if rng.chance(1, 12) {
        // same bytes through a different representation
        K::Raw(raw_key(a.raw()), *a.raw())
    } else {
        gen_key(rng, Some(a.raw()), check)
    };
    let near_a = rng.bool();
    let c = gen_key(rng, Some(if near_a { a.raw() } else { b.raw() }), check);
    let cx = Ctx { check, a: &a, b: &b, c: &c };

    let r = catch(|| {
        let dab = a.distance(&b);
        let dba = b.distance(&a);
        let dbc = b.distance(&c);
        let dac = a.distance(&c);
        let (xab, xbc, xac) = (xor32(a.raw(), b.raw()), xor32(b.raw(), c.raw()), xor32(a.raw(), c.raw()));

        // identity
        let zero = dab == KBucketDistance(U256::zero());
        if zero != (a.raw() == b.raw()) {
            cx.fail("identity", format!("d(a,b)==0 is {zero} but bytes equal is {}", a.raw() == b.raw()));
        }
        if a.distance(&a) != KBucketDistance::default() {
            cx.fail("identity-self", "d(a,a) != 0".into());
        }
        // value
        for (name, got, want) in [("ab", &dab, &xab), ("bc", &dbc, &xbc), ("ac", &dac, &xac)] {
            if &dist_bytes(got) != want {
                cx.fail("distance-not-xor", format!("d({name}) = {} but XOR of the key bytes is {}", short(&dist_bytes(got)), short(want)));
            }
        }
        // symmetry
        if dab != dba {
            cx.fail("symmetry", format!("d(a,b)={} d(b,a)={}", short(&dist_bytes(&dab)), short(&dist_bytes(&dba))));
        }
        // triangle on the library's values, arithmetic in the harness
        let (sum, carry) = add256(&dist_bytes(&dab), &dist_bytes(&dbc));
        if !carry && !le(&dist_bytes(&dac), &sum) {
            cx.fail("triangle", format!("d(a,c)={} > d(a,b)+d(b,c)={}", short(&dist_bytes(&dac)), short(&sum)));
        }
        // Ord on Distance agrees with numeric order of the bytes
        if (dab <= dac) != le(&dist_bytes(&dab), &dist_bytes(&dac)) {
            cx.fail("distance-order", "Ord on Distance disagrees with numeric order of its bytes".into());
        }
        // inverse
        let back = a.for_distance(dab);
        if &back.verif_raw() != b.raw() {
            cx.fail("for-distance-not-inverse", format!("a.for_distance(d(a,b)) = {} != b", short(&back.verif_raw())));
        }
        // unidirectional, with an edge distance D
        let dv = edge_value(rng);
        let d = KBucketDistance(U256::from_big_endian(&dv));
        let k = a.for_distance(d);
        let kraw = k.verif_raw();
        if kraw != xor32(a.raw(), &dv) {
            cx.fail("for-distance-value", format!("a.for_distance({}) = {}", short(&dv), short(&kraw)));
        }
        let kk = K::Raw(k, kraw);
        if a.distance(&kk) != d {
            cx.fail("for-distance-wrong-distance", format!("d(a, a.for_distance(D)) = {} != D = {}", short(&dist_bytes(&a.distance(&kk))), short(&dv)));
        }
        for x in [&b, &c] {
            if x.raw() != &kraw && a.distance(x) == d {
                cx.fail("unidirectional", format!("two different keys at distance {} from a", short(&dv)));
            }
        }
        // a neighbour of k (one flipped bit) must not be at distance D
        let flip = pow2(rng.below(256) as u32);
        let nb = xor32(&kraw, &flip);
        if a.distance(&K::Raw(raw_key(&nb), nb)) == d {
            cx.fail("unidirectional", format!("neighbour of for_distance(D) also at distance D={}", short(&dv)));
        }
        // ilog2
        for (dd, x) in [(&dab, &xab), (&dac, &xac), (&d, &dv)] {
            if dd.ilog2() != highest_bit(x) {
                cx.fail("ilog2", format!("ilog2({}) = {:?}, highest set bit = {:?}", short(x), dd.ilog2(), highest_bit(x)));
            }
        }
        // bucket index: table with local key a
        let bs = NonZeroUsize::new(1 + rng.usize(3)).unwrap();
        let mut t: Table<KeyBytes> = Table::new(a.kb(), bs, Duration::from_secs(60));
        if t.bucket_of(&a.kb()).is_some() {
            cx.fail("local-key-has-bucket", "bucket(local key) is Some".into());
        }
        for x in [&b, &c, &kk] {
            let dx = xor32(a.raw(), x.raw());
            let want = highest_bit(&dx);
            let got = t.bucket_of(&x.kb());
            if got.map(|g| g.0 as u32) != want {
                cx.fail("bucket-index", format!("bucket_of(key at distance {}) = {:?}, highest set bit {:?}", short(&dx), got.map(|g| g.0), want));
            }
            if let (Some((_, (lo, hi))), Some(i)) = (got, want) {
                if dist_bytes(&lo) != pow2(i) || dist_bytes(&hi) != ones_below(i) {
                    cx.fail("bucket-range", format!("range of bucket {i} = [{}, {}]", short(&dist_bytes(&lo)), short(&dist_bytes(&hi))));
                }
                check.distinct("bucket_indices_seen", i as u64);
            }
            if let Some(i) = want {
                let out = t.insert(&x.kb(), 7, if rng.bool() { NodeStatus::Connected } else { NodeStatus::Disconnected });
                if matches!(out, InsertOutcome::Inserted) {
                    let snap = t.snapshot();
                    let at: Vec<usize> = snap.iter().filter(|bk| bk.nodes.iter().any(|n| &n.0.verif_raw() == x.raw())).map(|bk| bk.index).collect();
                    if at != vec![i as usize] {
                        cx.fail("stored-in-wrong-bucket", format!("key at distance {} stored in buckets {:?}, want [{i}]", short(&dx), at));
                    }
                    check.count("inserts_checked", 1);
                }
            }
        }
    });
    if let Err(p) = r {
        cx.fail(&format!("panic@{}", p.site()), format!("panic: {}", p.msg));
    }
    let distinct3 = a.raw() != b.raw() && b.raw() != c.raw() && a.raw() != c.raw();
    check.case(Sig::new().bytes(a.raw()).bytes(b.raw()).bytes(c.raw()).0, distinct3);
    check.count(&format!("kind_{}_{}", a.kind(), b.kind()), 1);
    if a.raw() == b.raw() {
        check.count("equal_bytes_pairs", 1);
    }
    if distinct3 && check.want_sample() {
        check.sample(json!({"a": short(a.raw()), "a_kind": a.kind(), "b": short(b.raw()), "b_kind": b.kind(),
            "d_ab": short(&xor32(a.raw(), b.raw())), "ilog2": highest_bit(&xor32(a.raw(), b.raw()))}));
    }
}

pub fn run(args: &Args) -> i32 {
    let check = Check::new(
        args,
        "exploration",
        "PRNG triples (a,b,c) of keys drawn from: hashed Key<PeerId>, hashed Key<Vec<u8>>, raw edge keys (0, 1, 2^k, 2^k-1, all-ones, two-bit) \
         and keys at an edge distance from a previous key; plus an edge distance D per case. Non-trivial = three pairwise different keys; distinct by key bytes",
    );
    let n = args.extra.get("budget").map(|b| if b == "tiny" { 40 } else { 2_000 }).unwrap_or(args.tier.pick(300_000, 12_000_000));
    vmon::par_cases(&check, n, args.threads, |_i, rng| one_case(&check, rng));
    check.note("exhaustive", json!(false));
    check.note("laws", json!(["identity", "value(xor)", "symmetry", "triangle", "order", "unidirectional", "for_distance inverse", "ilog2", "bucket index+range", "local key has no bucket"]));
    check.finish()
}
