//! C44 — Kademlia messages round-trip through the wire codec; arbitrary bytes never panic.
//!
//! Real code driven: the real `protocol::Codec` (obtained exactly as the connection handler obtains
//! it: `ProtocolConfig::upgrade_{out,in}bound` → `Framed<_, Codec<_,_>>` → `codec_mut()`), i.e.
//! `req_msg_to_proto / resp_msg_to_proto / record_to_proto / proto_to_req_msg / proto_to_resp_msg /
//! record_from_proto / KadPeer::try_from` plus the prost framing.
//!
//! Part 1 (round trip). 1–4 generated messages of every kind are encoded back to back, the bytes
//! are fed to the opposite decoder in PRNG-sized chunks, and exactly the same messages must come
//! out, in order, with nothing left over. "Same" is judged on a canonical form built in the harness
//! from the public fields, with these documented exclusions (statement silent / not representable):
//!   * `Record.expires` is an `Instant`; the wire carries whole seconds. Judged: presence is
//!     preserved and `t - 1s < decoded <= t + (after - before)` with stamps taken around the
//!     encode/decode calls (one-sided, never fails because of scheduling delay). Lifetimes below
//!     2 s and in the past are left to C42 (second half) and are not generated here.
//!   * `KadPeer.multiaddrs`: the decoder appends `/p2p/<node_id>` to addresses that lack it (and
//!     drops addresses ending in a different `/p2p`). Addresses are compared modulo a trailing
//!     `/p2p/<own node_id>`; addresses generated with a foreign `/p2p` suffix are "not judged"
//!     (counted in `addrs_foreign_p2p_not_judged`) and ignored on both sides.
//!   * messages whose encoding exceeds the configured max packet size: only "no panic" is judged
//!     (`oversized_not_judged`).
//! Part 2 (hostile bytes). Random bytes, mutations of real frames, and hand-built protobuf
//! messages (via `vmon::pb`) with out-of-range enums, invalid peer ids / multiaddrs, wrong wire
//! types, huge ttl, unknown fields and lying length prefixes are fed to both decoders. Judged: no
//! panic, and the decoder makes progress (an `Ok(Some)` consumes bytes). A message that *is*
//! accepted must itself round-trip (part 1 oracle).
use std::time::Duration;

use asynchronous_codec::{Decoder, Encoder, Framed};
use bytes::BytesMut;
use futures::io::Cursor;
use libp2p_core::{
    Multiaddr,
    multiaddr::Protocol,
    upgrade::{InboundUpgrade, OutboundUpgrade},
};
use libp2p_identity::PeerId;
use libp2p_kad::{
    ConnectionType, KadPeer, PROTOCOL_NAME, Record, RecordKey,
    verif::protocol::{Codec, KadRequestMsg, KadResponseMsg, ProtocolConfig},
};
use vmon::{Args, Check, Rng, Sig, catch, json, pb};
use web_time::Instant;

use crate::util::*;

type OutCodec = Framed<Cursor<Vec<u8>>, Codec<KadRequestMsg, KadResponseMsg>>;
type InCodec = Framed<Cursor<Vec<u8>>, Codec<KadResponseMsg, KadRequestMsg>>;

pub fn codecs(max_packet: Option<usize>) -> (OutCodec, InCodec) {
    let mut cfg = ProtocolConfig::new(PROTOCOL_NAME);
    if let Some(m) = max_packet {
        cfg.set_max_packet_size(m);
    }
    let out = cfg.clone().upgrade_outbound(Cursor::new(Vec::new()), PROTOCOL_NAME).into_inner().expect("upgrade is infallible");
    let inn = cfg.upgrade_inbound(Cursor::new(Vec::new()), PROTOCOL_NAME).into_inner().expect("upgrade is infallible");
    (out, inn)
}

// ------------------------------------------------------------------------------------------------
// generation
// ------------------------------------------------------------------------------------------------

struct Gen<'a> {
    rng: &'a mut Rng,
    peers: Vec<PeerId>,
    foreign_addrs: u64,
}

impl Gen<'_> {
    fn peer_id(&mut self) -> PeerId {
        if self.peers.len() < 4 || self.rng.chance(1, 4) {
            let p = if self.rng.chance(1, 5) {
                // identity-multihash peer id (short ed25519-like), exercises a second id format
                libp2p_identity::Keypair::ed25519_from_bytes(rand_b32(self.rng)).expect("32 bytes").public().to_peer_id()
            } else {
                rand_peer(self.rng)
            };
            self.peers.push(p);
            p
        } else {
            *self.rng.pick(&self.peers)
        }
    }
    fn base_addr(&mut self) -> Multiaddr {
        let r = &mut *self.rng;
        let mut a = Multiaddr::empty();
        match r.below(7) {
            0 => {}
            1 => {
                a.push(Protocol::Ip4(std::net::Ipv4Addr::from(r.next_u32())));
                a.push(Protocol::Tcp(r.below(65536) as u16));
            }
            2 => {
                let mut b = [0u8; 16];
                r.fill(&mut b);
                a.push(Protocol::Ip6(std::net::Ipv6Addr::from(b)));
                a.push(Protocol::Udp(r.below(65536) as u16));
                a.push(Protocol::QuicV1);
            }
            3 => {
                a.push(Protocol::Dns(format!("h{}.example", r.below(1000)).into()));
                a.push(Protocol::Tcp(443));
                a.push(Protocol::Tls);
                a.push(Protocol::Ws("/".into()));
            }
            4 => a.push(Protocol::Memory(r.next_u64())),
            5 => {
                // relayed address: /ip4/../tcp/../p2p/<relay>/p2p-circuit
                a.push(Protocol::Ip4(std::net::Ipv4Addr::from(r.next_u32())));
                a.push(Protocol::Tcp(4001));
                a.push(Protocol::P2p(rand_peer(r)));
                a.push(Protocol::P2pCircuit);
            }
            _ => {
                a.push(Protocol::Dnsaddr("bootstrap.example".into()));
            }
        }
        a
    }
    /// (address, is_foreign)
    fn addr_for(&mut self, node: &PeerId) -> (Multiaddr, bool) {
        let base = self.base_addr();
        match self.rng.below(10) {
            0..=4 => (base, false),
            5..=8 => (base.with(Protocol::P2p(*node)), false),
            _ => {
                self.foreign_addrs += 1;
                let other = rand_peer(self.rng);
                (base.with(Protocol::P2p(other)), true)
            }
        }
    }
    fn kad_peer(&mut self) -> KadPeer {
        let node_id = self.peer_id();
        let n = self.rng.usize(4);
        let multiaddrs = (0..n).map(|_| self.addr_for(&node_id).0).collect();
        let connection_ty = *self.rng.pick(&[ConnectionType::NotConnected, ConnectionType::Connected, ConnectionType::CanConnect, ConnectionType::CannotConnect]);
        KadPeer { node_id, multiaddrs, connection_ty }
    }
    fn peers(&mut self) -> Vec<KadPeer> {
        let n = match self.rng.below(6) {
            0 => 0,
            1 => 20,
            _ => self.rng.usize(5),
        };
        (0..n).map(|_| self.kad_peer()).collect()
    }
    fn blob(&mut self, big: bool) -> Vec<u8> {
        let n = match self.rng.below(8) {
            0 => 0,
            1 => 1,
            2 if big => 1000 + self.rng.usize(3000),
            _ => self.rng.usize(64),
        };
        self.rng.bytes(n)
    }
    fn key(&mut self) -> RecordKey {
        RecordKey::from(self.blob(false))
    }
    fn record(&mut self, base: Instant) -> Record {
        let expires = match self.rng.below(3) {
            0 => None,
            _ => Some(base + Duration::from_secs(self.rng.range(3, 200_000)) + Duration::from_nanos(self.rng.below(1_000_000_000))),
        };
        Record { key: self.key(), value: self.blob(true), publisher: if self.rng.bool() { Some(self.peer_id()) } else { None }, expires }
    }
    fn req(&mut self, base: Instant) -> KadRequestMsg {
        match self.rng.below(6) {
            0 => KadRequestMsg::Ping,
            1 => KadRequestMsg::FindNode { key: self.blob(false) },
            2 => KadRequestMsg::GetProviders { key: self.key() },
            3 => KadRequestMsg::AddProvider { key: self.key(), provider: self.kad_peer() },
            4 => KadRequestMsg::GetValue { key: self.key() },
            _ => KadRequestMsg::PutValue { record: self.record(base) },
        }
    }
    fn resp(&mut self, base: Instant) -> KadResponseMsg {
        match self.rng.below(5) {
            0 => KadResponseMsg::Pong,
            1 => KadResponseMsg::FindNode { closer_peers: self.peers() },
            2 => KadResponseMsg::GetProviders { closer_peers: self.peers(), provider_peers: self.peers() },
            3 => KadResponseMsg::GetValue { record: if self.rng.bool() { Some(self.record(base)) } else { None }, closer_peers: self.peers() },
            _ => KadResponseMsg::PutValue { key: self.key(), value: self.blob(true) },
        }
    }
}

// ------------------------------------------------------------------------------------------------
// canonical form (harness side)
// ------------------------------------------------------------------------------------------------

fn canon_peer(p: &KadPeer) -> String {
    let mut addrs = vec![];
    for a in &p.multiaddrs {
        let comps: Vec<Protocol> = a.iter().collect();
        let (body, last) = match comps.split_last() {
            Some((Protocol::P2p(id), rest)) => (rest.to_vec(), Some(*id)),
            _ => (comps.clone(), None),
        };
        match last {
            Some(id) if id != p.node_id => continue, // foreign suffix: not judged
            _ => {}
        }
        let mut m = Multiaddr::empty();
        for c in body {
            m.push(c);
        }
        addrs.push(vmon::hex(&m.to_vec()));
    }
    format!("peer({},{:?},{:?})", vmon::hex(&p.node_id.to_bytes()), addrs, p.connection_ty as u8)
}
fn canon_record(r: &Record) -> String {
    format!("rec(k={},v={},pub={:?},exp={})", vmon::hex(r.key.as_ref()), vmon::hex(&r.value), r.publisher.map(|p| vmon::hex(&p.to_bytes())), r.expires.is_some())
}
fn canon_req(m: &KadRequestMsg) -> String {
    match m {
        KadRequestMsg::Ping => "Ping".into(),
        KadRequestMsg::FindNode { key } => format!("FindNode({})", vmon::hex(key)),
        KadRequestMsg::GetProviders { key } => format!("GetProviders({})", vmon::hex(key.as_ref())),
        KadRequestMsg::AddProvider { key, provider } => format!("AddProvider({},{})", vmon::hex(key.as_ref()), canon_peer(provider)),
        KadRequestMsg::GetValue { key } => format!("GetValue({})", vmon::hex(key.as_ref())),
        KadRequestMsg::PutValue { record } => format!("PutValue({})", canon_record(record)),
    }
}
fn canon_resp(m: &KadResponseMsg) -> String {
    let ps = |v: &Vec<KadPeer>| v.iter().map(canon_peer).collect::<Vec<_>>().join(";");
    match m {
        KadResponseMsg::Pong => "Pong".into(),
        KadResponseMsg::FindNode { closer_peers } => format!("FindNode[{}]", ps(closer_peers)),
        KadResponseMsg::GetProviders { closer_peers, provider_peers } => format!("GetProviders[{}][{}]", ps(closer_peers), ps(provider_peers)),
        KadResponseMsg::GetValue { record, closer_peers } => format!("GetValue({:?})[{}]", record.as_ref().map(canon_record), ps(closer_peers)),
        KadResponseMsg::PutValue { key, value } => format!("PutValue({},{})", vmon::hex(key.as_ref()), vmon::hex(value)),
    }
}
fn kind_req(m: &KadRequestMsg) -> &'static str {
    match m {
        KadRequestMsg::Ping => "req_ping",
        KadRequestMsg::FindNode { .. } => "req_find_node",
        KadRequestMsg::GetProviders { .. } => "req_get_providers",
        KadRequestMsg::AddProvider { .. } => "req_add_provider",
        KadRequestMsg::GetValue { .. } => "req_get_value",
        KadRequestMsg::PutValue { .. } => "req_put_value",
    }
}
fn kind_resp(m: &KadResponseMsg) -> &'static str {
    match m {
        KadResponseMsg::Pong => "resp_pong",
        KadResponseMsg::FindNode { .. } => "resp_find_node",
        KadResponseMsg::GetProviders { .. } => "resp_get_providers",
        KadResponseMsg::GetValue { .. } => "resp_get_value",
        KadResponseMsg::PutValue { .. } => "resp_put_value",
    }
}
fn rec_of_req(m: &KadRequestMsg) -> Option<&Record> {
    match m {
        KadRequestMsg::PutValue { record } => Some(record),
        _ => None,
    }
}
fn rec_of_resp(m: &KadResponseMsg) -> Option<&Record> {
    match m {
        KadResponseMsg::GetValue { record, .. } => record.as_ref(),
        _ => None,
    }
}

/// expiry bounds; `None` = fine
fn expiry_ok(orig: Option<&Record>, dec: Option<&Record>, before: Instant, after: Instant) -> Option<String> {
    let (Some(o), Some(d)) = (orig, dec) else { return None };
    match (o.expires, d.expires) {
        (None, None) => None,
        (Some(t), Some(u)) => {
            if u + Duration::from_secs(1) <= t {
                Some(format!("decoded expiry is {:?} earlier than the original (more than the 1 s wire granularity)", t - u))
            } else if u > t + (after - before) {
                Some(format!("decoded expiry is {:?} later than the original (encode..decode took {:?})", u - t, after - before))
            } else {
                None
            }
        }
        (a, b) => Some(format!("expiry presence changed: {:?} -> {:?}", a.is_some(), b.is_some())),
    }
}

/// Feed `bytes` in PRNG chunks; collect decoded items until error. Returns (items, error, leftover, no_progress)
fn feed<D: Decoder>(dec: &mut D, bytes: &[u8], rng: &mut Rng, whole: bool) -> (Vec<D::Item>, Option<String>, usize, bool)
where
    D::Error: std::fmt::Display,
{
    let mut buf = BytesMut::new();
    let mut out = vec![];
    let mut pos = 0;
    loop {
        // drain
        let mut guard = 0;
        loop {
            let before = buf.len();
            match dec.decode(&mut buf) {
                Ok(Some(m)) => {
                    out.push(m);
                    if buf.len() >= before {
                        return (out, None, buf.len(), true);
                    }
                }
                Ok(None) => break,
                Err(e) => return (out, Some(e.to_string()), buf.len(), false),
            }
            guard += 1;
            if guard > 10_000 {
                return (out, None, buf.len(), true);
            }
        }
        if pos >= bytes.len() {
            break;
        }
        let span = if rng.bool() { 3 } else { 300 };
        let n = if whole { bytes.len() - pos } else { (1 + rng.usize(span)).min(bytes.len() - pos) };
        buf.extend_from_slice(&bytes[pos..pos + n]);
        pos += n;
    }
    (out, None, buf.len(), false)
}

// ------------------------------------------------------------------------------------------------
// part 1: round trip
// ------------------------------------------------------------------------------------------------

fn roundtrip_case(check: &Check, rng: &mut Rng) {
    let max_packet = match rng.below(6) {
        0 => Some(64 + rng.usize(512)),
        _ => None,
    };
    let limit = max_packet.unwrap_or(16 * 1024);
    let (mut out, mut inn) = codecs(max_packet);
    let base = Instant::now();
    let mut g = Gen { rng, peers: vec![], foreign_addrs: 0 };
    let is_req = g.rng.bool();
    let n = 1 + g.rng.usize(4);
    let reqs: Vec<KadRequestMsg> = if is_req { (0..n).map(|_| g.req(base)).collect() } else { vec![] };
    let resps: Vec<KadResponseMsg> = if !is_req { (0..n).map(|_| g.resp(base)).collect() } else { vec![] };
    let foreign = g.foreign_addrs;
    let rng = g.rng;
    let canon_in: Vec<String> = if is_req { reqs.iter().map(canon_req).collect() } else { resps.iter().map(canon_resp).collect() };
    let witness = || json!({"direction": if is_req { "request" } else { "response" }, "max_packet_size": limit, "messages": canon_in});

    let before = Instant::now();
    let mut wire = BytesMut::new();
    let mut oversized = false;
    let enc = catch(|| -> Result<(), String> {
        if is_req {
            for m in &reqs {
                let l0 = wire.len();
                out.codec_mut().encode(m.clone(), &mut wire).map_err(|e| e.to_string())?;
                oversized |= wire.len() - l0 > limit;
            }
        } else {
            for m in &resps {
                let l0 = wire.len();
                inn.codec_mut().encode(m.clone(), &mut wire).map_err(|e| e.to_string())?;
                oversized |= wire.len() - l0 > limit;
            }
        }
        Ok(())
    });
    match enc {
        Err(p) => {
            check.violation(format!("encode-panic@{}", p.site()), format!("panic while encoding: {}", p.msg), witness());
            check.case(0, false);
            return;
        }
        Ok(Err(e)) => {
            if !oversized {
                check.violation("encode-error", format!("encoding a message within the packet limit failed: {e}"), witness());
            }
            check.count("encode_errors", 1);
            check.case(0, false);
            return;
        }
        Ok(Ok(())) => {}
    }
    let whole = rng.chance(1, 4);
    let wire_v = wire.to_vec();
    let mut sig = Sig::new();
    for c in &canon_in {
        sig.push_str(c);
    }
    let r = catch(|| {
        if is_req {
            let (got, err, left, stuck) = feed(inn.codec_mut(), &wire_v, rng, whole);
            let after = Instant::now();
            (got.iter().map(canon_req).collect::<Vec<_>>(), err, left, stuck, reqs.iter().zip(got.iter()).filter_map(|(o, d)| expiry_ok(rec_of_req(o), rec_of_req(d), before, after)).next())
        } else {
            let (got, err, left, stuck) = feed(out.codec_mut(), &wire_v, rng, whole);
            let after = Instant::now();
            (got.iter().map(canon_resp).collect::<Vec<_>>(), err, left, stuck, resps.iter().zip(got.iter()).filter_map(|(o, d)| expiry_ok(rec_of_resp(o), rec_of_resp(d), before, after)).next())
        }
    });
    match r {
        Err(p) => check.violation(format!("decode-panic@{}", p.site()), format!("panic while decoding own encoding: {}", p.msg), witness()),
        Ok((got, err, left, stuck, exp)) => {
            if oversized {
                check.count("oversized_not_judged", 1);
            } else if stuck {
                check.violation("decoder-no-progress", "decoder returned a message without consuming bytes".to_string(), witness());
            } else if let Some(e) = err {
                check.violation("roundtrip-decode-error", format!("own encoding does not decode: {e} (after {} of {} messages)", got.len(), canon_in.len()), witness());
            } else if got != canon_in {
                let i = got.iter().zip(canon_in.iter()).position(|(a, b)| a != b).unwrap_or(got.len().min(canon_in.len()));
                let kind = if got.len() != canon_in.len() { "roundtrip-message-count".to_string() } else { format!("roundtrip-differs:{}", canon_in[i].split(['(', '[']).next().unwrap_or("?")) };
                check.violation(kind, format!("message {i}: sent {:?}, decoded {:?}", canon_in.get(i), got.get(i)), witness());
            } else if left != 0 {
                check.violation("roundtrip-leftover-bytes", format!("{left} bytes left in the buffer after decoding all messages"), witness());
            } else if let Some(e) = exp {
                check.violation("roundtrip-expiry", e, witness());
            }
        }
    }
    for m in &reqs {
        check.count(kind_req(m), 1);
    }
    for m in &resps {
        check.count(kind_resp(m), 1);
    }
    check.count("addrs_foreign_p2p_not_judged", foreign);
    check.count("wire_bytes", wire_v.len() as u64);
    let nontrivial = !oversized && canon_in.iter().any(|c| c.len() > 12);
    check.case(sig.0, nontrivial);
    if nontrivial && check.want_sample() {
        check.sample(json!({"part": "roundtrip", "messages": canon_in.iter().map(|c| c.chars().take(160).collect::<String>()).collect::<Vec<_>>(), "wire_len": wire_v.len(), "chunked": !whole}));
    }
}

// ------------------------------------------------------------------------------------------------
// part 2: hostile bytes
// ------------------------------------------------------------------------------------------------

fn hostile_peer(rng: &mut Rng) -> pb::Msg {
    let mut m = pb::Msg::new();
    match rng.below(6) {
        0 => {}
        1 => m = m.bytes(1, rbytes(rng, 40)),
        2 => m = m.bytes(1, []),
        3 => m = m.varint(1, rng.next_u64()), // wrong wire type
        _ => m = m.bytes(1, rand_peer(rng).to_bytes()),
    }
    for _ in 0..rng.usize(4) {
        m = match rng.below(4) {
            0 => m.bytes(2, rbytes(rng, 24)),
            1 => m.bytes(2, "/ip4/1.2.3.4/tcp/5".parse::<Multiaddr>().unwrap().to_vec()),
            2 => m.bytes(2, Multiaddr::empty().with(Protocol::P2p(rand_peer(rng))).to_vec()),
            _ => m.bytes(2, []),
        };
    }
    match rng.below(6) {
        0 => {}
        1 => m = m.varint(3, rng.below(4)),
        2 => m = m.varint(3, 4 + rng.below(100)),
        3 => m = m.varint(3, u64::MAX),
        4 => m = m.varint(3, 1 << 31),
        _ => m = m.bytes(3, rng.bytes(3)),
    }
    m
}
fn hostile_record(rng: &mut Rng) -> pb::Msg {
    let mut m = pb::Msg::new();
    if rng.bool() {
        m = m.bytes(1, rbytes(rng, 20));
    }
    if rng.bool() {
        m = m.bytes(2, rbytes(rng, 50));
    }
    match rng.below(4) {
        0 => m = m.bytes(5, rbytes(rng, 10)), // timeReceived: possibly invalid utf-8
        1 => m = m.bytes(5, "2024-01-01T00:00:00Z"),
        _ => {}
    }
    match rng.below(4) {
        0 => m = m.bytes(666, rbytes(rng, 40)),
        1 => m = m.bytes(666, rand_peer(rng).to_bytes()),
        _ => {}
    }
    match rng.below(6) {
        0 => m = m.varint(777, 0),
        1 => m = m.varint(777, 1),
        2 => m = m.varint(777, u32::MAX as u64),
        3 => m = m.varint(777, u64::MAX),
        4 => m = m.varint(777, rng.next_u64()),
        _ => {}
    }
    m
}
fn hostile_message(rng: &mut Rng) -> Vec<u8> {
    let mut m = pb::Msg::new();
    match rng.below(8) {
        0 => {}
        1 => m = m.varint(1, 6 + rng.below(1000)),
        2 => m = m.varint(1, u64::MAX),
        3 => m = m.bytes(1, rng.bytes(2)),
        _ => m = m.varint(1, rng.below(6)),
    }
    if rng.bool() {
        m = m.varint(10, if rng.bool() { rng.below(20) } else { rng.next_u64() });
    }
    if rng.chance(2, 3) {
        m = m.bytes(2, rbytes(rng, 40));
    }
    match rng.below(4) {
        0 => {}
        1 => m = m.bytes(3, rbytes(rng, 30)),
        2 => m = m.varint(3, rng.next_u64()),
        _ => m = m.msg(3, &hostile_record(rng)),
    }
    for f in [8u32, 9] {
        for _ in 0..rng.usize(4) {
            m = if rng.chance(1, 6) { m.bytes(f, rbytes(rng, 20)) } else { m.msg(f, &hostile_peer(rng)) };
        }
    }
    if rng.chance(1, 4) {
        m = m.bytes(1000 + rng.below(1000) as u32, rbytes(rng, 10));
    }
    if rng.chance(1, 8) {
        m.fields.push((4, pb::Val::Fixed64(rng.next_u64())));
        m.fields.push((5, pb::Val::Fixed32(rng.next_u32())));
    }
    if rng.chance(1, 3) {
        rng.shuffle(&mut m.fields);
    }
    m.encode()
}

fn mutate(rng: &mut Rng, mut b: Vec<u8>) -> Vec<u8> {
    for _ in 0..1 + rng.usize(3) {
        if b.is_empty() {
            b.push(rng.next_u32() as u8);
            continue;
        }
        let i = rng.usize(b.len());
        match rng.below(6) {
            0 => b[i] ^= 1 << rng.below(8),
            1 => b[i] = rng.next_u32() as u8,
            2 => b.truncate(i),
            3 => b.insert(i, rng.next_u32() as u8),
            4 => {
                b.remove(i);
            }
            _ => {
                let j = rng.usize(b.len());
                let (lo, hi) = (i.min(j), i.max(j));
                let seg = b[lo..hi].to_vec();
                b.splice(lo..lo, seg);
            }
        }
    }
    b
}

fn hostile_case(check: &Check, rng: &mut Rng) {
    let max_packet = if rng.chance(1, 8) { Some(rng.usize(200)) } else { None };
    let limit = max_packet.unwrap_or(16 * 1024);
    let (mut out, mut inn) = codecs(max_packet);
    let base = Instant::now();
    let strategy = rng.below(5);
    let bytes: Vec<u8> = match strategy {
        0 => rbytes(rng, 200),
        1 => pb::frame(&rbytes(rng, 120)),
        2 => {
            // mutated real frame
            let mut w = BytesMut::new();
            let mut g = Gen { rng, peers: vec![], foreign_addrs: 0 };
            if g.rng.bool() {
                let m = g.req(base);
                let _ = out.codec_mut().encode(m, &mut w);
            } else {
                let m = g.resp(base);
                let _ = inn.codec_mut().encode(m, &mut w);
            }
            mutate(rng, w.to_vec())
        }
        3 => pb::frame(&hostile_message(rng)),
        _ => {
            // lying length prefix
            let body = hostile_message(rng);
            let mut o = match rng.below(4) {
                0 => pb::uvarint(body.len() as u64 + 1 + rng.below(5)),
                1 => pb::uvarint(body.len().saturating_sub(1 + rng.usize(3)) as u64),
                2 => pb::uvarint(u64::MAX),
                _ => vec![0x80; 1 + rng.usize(11)],
            };
            o.extend_from_slice(&body);
            o
        }
    };
    let name = ["random", "framed_random", "mutated_frame", "handbuilt_protobuf", "lying_length"][strategy as usize];
    let witness = json!({"strategy": name, "bytes": vmon::hex(&bytes)});
    let mut accepted = 0u64;
    let mut rejected = 0u64;
    let whole = rng.bool();
    // request decoder
    let r = catch(|| feed(inn.codec_mut(), &bytes, rng, whole));
    match r {
        Err(p) => check.violation(format!("decode-panic@{}", p.site()), format!("request decoder panicked on {name} bytes: {}", p.msg), witness.clone()),
        Ok((got, err, _, stuck)) => {
            if stuck {
                check.violation("decoder-no-progress", "request decoder returned a message without consuming bytes".to_string(), witness.clone());
            }
            accepted += got.len() as u64;
            rejected += err.is_some() as u64;
            // accepted messages must round-trip themselves
            for m in got {
                if rec_of_req(&m).is_some_and(|r| r.expires.is_some()) {
                    continue; // lifetime granularity: C42
                }
                let c = canon_req(&m);
                let mut w = BytesMut::new();
                let rr = catch(|| {
                    out.codec_mut().encode(m.clone(), &mut w).map_err(|e| e.to_string())?;
                    if w.len() > limit {
                        return Ok((vec![c.clone()], None)); // re-encoding (with /p2p appended) exceeds the packet limit: not judged
                    }
                    let (g2, e2, _, _) = feed(inn.codec_mut(), &w, rng, true);
                    Ok::<_, String>((g2.iter().map(canon_req).collect::<Vec<_>>(), e2))
                });
                match rr {
                    Err(p) => check.violation(format!("reencode-panic@{}", p.site()), format!("panic re-encoding an accepted request: {}", p.msg), witness.clone()),
                    Ok(Err(e)) => check.violation("accepted-message-does-not-reencode", e, witness.clone()),
                    Ok(Ok((g2, e2))) => {
                        if e2.is_some() || g2 != vec![c.clone()] {
                            check.violation("accepted-request-does-not-roundtrip", format!("decoded {c}, re-encoded and decoded {g2:?} err {e2:?}"), witness.clone());
                        }
                    }
                }
            }
        }
    }
    // response decoder
    let r = catch(|| feed(out.codec_mut(), &bytes, rng, whole));
    match r {
        Err(p) => check.violation(format!("decode-panic@{}", p.site()), format!("response decoder panicked on {name} bytes: {}", p.msg), witness.clone()),
        Ok((got, err, _, stuck)) => {
            if stuck {
                check.violation("decoder-no-progress", "response decoder returned a message without consuming bytes".to_string(), witness.clone());
            }
            accepted += got.len() as u64;
            rejected += err.is_some() as u64;
            for m in got {
                if rec_of_resp(&m).is_some_and(|r| r.expires.is_some()) {
                    continue;
                }
                let c = canon_resp(&m);
                let mut w = BytesMut::new();
                let rr = catch(|| {
                    inn.codec_mut().encode(m.clone(), &mut w).map_err(|e| e.to_string())?;
                    if w.len() > limit {
                        return Ok((vec![c.clone()], None));
                    }
                    let (g2, e2, _, _) = feed(out.codec_mut(), &w, rng, true);
                    Ok::<_, String>((g2.iter().map(canon_resp).collect::<Vec<_>>(), e2))
                });
                match rr {
                    Err(p) => check.violation(format!("reencode-panic@{}", p.site()), format!("panic re-encoding an accepted response: {}", p.msg), witness.clone()),
                    Ok(Err(e)) => check.violation("accepted-message-does-not-reencode", e, witness.clone()),
                    Ok(Ok((g2, e2))) => {
                        if e2.is_some() || g2 != vec![c.clone()] {
                            check.violation("accepted-response-does-not-roundtrip", format!("decoded {c}, re-encoded and decoded {g2:?} err {e2:?}"), witness.clone());
                        }
                    }
                }
            }
        }
    }
    check.count(&format!("hostile_{name}"), 1);
    check.count("hostile_accepted_msgs", accepted);
    check.count("hostile_rejected", rejected);
    check.case(Sig::new().bytes(&bytes).0, !bytes.is_empty());
    if strategy >= 2 && rejected > 0 && check.counter("hostile_samples") < 2 {
        check.count("hostile_samples", 1);
        check.sample(json!({"part": "hostile", "strategy": name, "bytes": vmon::hex(&bytes[..bytes.len().min(80)]), "accepted": accepted, "rejected_by_decoders": rejected}));
    }
}

pub fn run(args: &Args) -> i32 {
    let check = Check::new(
        args,
        "exploration",
        "half of the cases: 1-4 generated requests or responses of every kind (peers with 0-3 addresses of 7 shapes with/without /p2p, records with/without publisher and expiry, \
         values up to 4 KB, default and small max packet size) encoded back to back and decoded from PRNG chunks; other half: hostile byte strings (random, framed random, \
         mutated real frames, hand-built protobuf with invalid fields, lying length prefixes) into both decoders. Non-trivial = non-empty payload-carrying message / non-empty byte string; distinct by content",
    );
    let n = args.extra.get("budget").map(|b| if b == "tiny" { 30 } else { 2_000 }).unwrap_or(args.tier.pick(400_000, 15_000_000));
    vmon::par_cases(&check, n, args.threads, |i, rng| {
        if i % 2 == 0 {
            roundtrip_case(&check, rng)
        } else {
            hostile_case(&check, rng)
        }
    });
    check.note("exhaustive", json!(false));
    check.finish()
}
