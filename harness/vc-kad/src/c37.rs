//! C37 — the k-bucket routing table keeps its structural invariants (+ pending-entry rules).
//!
//! Real code driven: `KBucketsTable::{entry, iter, bucket, closest_keys, take_applied_pending}`,
//! `Entry::{Present,Pending,Absent}` → `insert/update/remove`, `KBucket::apply_pending` — through
//! the forwarding `verif::kbucket::Table` facade — with the cfg(libp2p_verif) virtual clock frozen
//! and advanced by the harness (so "elapsed time" is an explicit operation and exact to the ns).
//!
//! Monitor (written from the statement, not from bucket.rs): a ledger of
//!   members: key -> (status, last-touch sequence number)        (touch = successful insert,
//!            status update, or the moment a pending entry is applied)
//!   pending: bucket -> (key, status, virtual time of the insert that made it pending)
//! folded from the *results* of the operations, and the table's state read with the non-mutating
//! `peek()` before and after every operation plus the `take_applied_pending()` stream.
//! After every operation:
//!   capacity      every bucket holds <= bucket_size entries
//!   uniqueness    every key at most once in the whole table
//!   placement     bucket index == position of the highest set bit of (local XOR key) (harness XOR)
//!   local key     never stored, never pending; `entry(local)` is refused
//!   membership    table content == ledger content (nothing vanishes or appears on its own), statuses equal
//!   order         per bucket: all Disconnected before all Connected; inside each class ascending
//!                 last-touch sequence (least-recently-updated first)
//!   pending       an applied pending entry (a) was the recorded pending entry of that bucket,
//!                 (b) is applied no earlier than insert_time + pending_timeout (virtual clock, exact),
//!                 (c) evicts only position 0 of the bucket as it was before the operation, which
//!                 must be Disconnected there and the least-recently-touched Disconnected member in
//!                 the ledger, (d) evicts nothing iff the bucket had room.
//! Not judged (statement only says "only ..."): that a due pending entry *must* be applied at a given
//! access, when a pending entry may be dropped, which key `InsertResult::Pending.disconnected`
//! names, and whether an insert into a bucket with room must succeed (all counted in the evidence).
//!
//! Workload: (1) bounded-exhaustive op sequences over 3 keys of one bucket (bucket_size 1: all
//! sequences of length 4 over an 18-op alphabet; bucket_size 2: length 5 over a 14-op alphabet;
//! thorough: one step deeper), (2) PRNG histories of 40–200 ops over ~14 keys concentrated in 3
//! buckets plus edge buckets (0, 1, 255), with raw `KeyBytes` keys and with hashed `Key<PeerId>` keys,
//! clock advances aimed at insert_time + timeout - 1 ns / + 0 / + 1 ns.
use std::{
    collections::{HashMap, HashSet},
    num::NonZeroUsize,
    time::Duration,
};

use libp2p_identity::PeerId;
use libp2p_kad::{
    KBucketKey, NodeStatus,
    verif::kbucket::{Applied, BucketSnap, EntryKind, InsertOutcome, KeyBytes, Table, clock},
};
use vmon::{Args, Check, Rng, Sig, catch, json};

use crate::{c38::RKey, util::*};

#[derive(Clone, Copy, Debug, PartialEq)]
enum Op {
    Insert(usize, bool),
    Update(usize, bool),
    Remove(usize),
    /// advance the virtual clock by this many nanoseconds
    Advance(u64),
    Snapshot,
    Closest(usize),
    Kind(usize),
    BucketOf(usize),
}

fn st(c: bool) -> NodeStatus {
    if c { NodeStatus::Connected } else { NodeStatus::Disconnected }
}

#[derive(Clone, Copy, Debug)]
struct Member {
    status: NodeStatus,
    touch: u64,
}
#[derive(Clone, Copy, Debug)]
struct PendingInfo {
    key: B32,
    status: NodeStatus,
    inserted_at: Duration,
}

struct Monitor {
    local: B32,
    cap: usize,
    timeout: Duration,
    members: HashMap<B32, Member>,
    pending: HashMap<usize, PendingInfo>,
    seq: u64,
    // evidence
    applied: u64,
    applied_evicting: u64,
    pending_created: u64,
    pending_dropped: u64,
    sig: Sig,
}

type Fail = (String, String);

impl Monitor {
    fn new(local: B32, cap: usize, timeout: Duration) -> Self {
        Monitor { local, cap, timeout, members: HashMap::new(), pending: HashMap::new(), seq: 0, applied: 0, applied_evicting: 0, pending_created: 0, pending_dropped: 0, sig: Sig::new() }
    }
    fn bucket_of(&self, k: &B32) -> Option<usize> {
        highest_bit(&xor32(&self.local, k)).map(|i| i as usize)
    }
    fn touch(&mut self) -> u64 {
        self.seq += 1;
        self.seq
    }
    fn expected_kind(&self, k: &B32) -> EntryKind {
        match self.bucket_of(k) {
            None => EntryKind::SelfEntry,
            Some(b) => {
                if let Some(m) = self.members.get(k) {
                    EntryKind::Present(m.status)
                } else if let Some(p) = self.pending.get(&b).filter(|p| &p.key == k) {
                    EntryKind::Pending(p.status)
                } else {
                    EntryKind::Absent
                }
            }
        }
    }

    /// (a) judge the applied-pending stream against the pre-state and fold it into the ledger
    fn on_applied<K: RKey>(&mut self, applied: &[Applied<K>], pre: &[BucketSnap<K>], now: Duration) -> Result<(), Fail> {
        let mut seen_buckets = HashSet::new();
        for ((ins, _v), evicted) in applied {
            let ins_raw = ins.raw();
            let b = self.bucket_of(&ins_raw).ok_or_else(|| ("applied-local-key".to_string(), "the local key was applied as a pending entry".to_string()))?;
            if !seen_buckets.insert(b) {
                return Err(("two-applies-in-one-bucket".into(), format!("bucket {b} reported two applied pending entries for one operation")));
            }
            let p = match self.pending.get(&b) {
                Some(p) if p.key == ins_raw => *p,
                other => return Err(("applied-entry-was-not-pending".into(), format!("bucket {b}: applied {} but the recorded pending entry is {:?}", short(&ins_raw), other.map(|p| short(&p.key))))),
            };
            if now < p.inserted_at + self.timeout {
                return Err((
                    "pending-applied-before-timeout".into(),
                    format!("bucket {b}: pending entry inserted at t={:?} with timeout {:?} was applied at t={now:?}", p.inserted_at, self.timeout),
                ));
            }
            let empty = vec![];
            let pre_nodes = pre.iter().find(|s| s.index == b).map(|s| &s.nodes).unwrap_or(&empty);
            match evicted {
                Some((e, _)) => {
                    let e_raw = e.raw();
                    if pre_nodes.len() < self.cap {
                        return Err(("pending-evicted-although-room".into(), format!("bucket {b} had {} of {} entries but {} was evicted", pre_nodes.len(), self.cap, short(&e_raw))));
                    }
                    match pre_nodes.first() {
                        Some((k0, _, s0)) if k0.raw() == e_raw => {
                            if *s0 != NodeStatus::Disconnected {
                                return Err(("pending-evicted-connected-entry".into(), format!("bucket {b}: evicted entry {} was Connected when the pending entry was applied", short(&e_raw))));
                            }
                        }
                        _ => return Err(("pending-evicted-not-position-0".into(), format!("bucket {b}: evicted {} which was not the first (least-recently-disconnected) entry", short(&e_raw)))),
                    }
                    // ledger view: least recently touched disconnected member of that bucket
                    let lrd = self.members.iter().filter(|(k, m)| self.bucket_of(k) == Some(b) && m.status == NodeStatus::Disconnected).min_by_key(|(_, m)| m.touch).map(|(k, _)| *k);
                    if lrd != Some(e_raw) {
                        return Err((
                            "pending-evicted-not-least-recently-disconnected".into(),
                            format!("bucket {b}: evicted {} but the least-recently-disconnected member by the monitor's ledger is {:?}", short(&e_raw), lrd.map(|k| short(&k))),
                        ));
                    }
                    self.members.remove(&e_raw);
                    self.applied_evicting += 1;
                }
                None => {
                    if pre_nodes.len() >= self.cap {
                        return Err(("pending-applied-to-full-bucket-without-eviction".into(), format!("bucket {b} was full ({}) and nothing was evicted", pre_nodes.len())));
                    }
                }
            }
            let touch = self.touch();
            self.members.insert(ins_raw, Member { status: p.status, touch });
            self.pending.remove(&b);
            self.applied += 1;
            self.sig.push_u64(0xA0 + evicted.is_some() as u64);
        }
        Ok(())
    }

    /// (b) + (d): compare the post-state with the ledger and check the structural invariants
    fn check_state<K: RKey>(&mut self, post: &[BucketSnap<K>]) -> Result<(), Fail> {
        let mut seen: HashSet<B32> = HashSet::new();
        for b in post {
            if b.nodes.len() > self.cap {
                return Err(("bucket-over-capacity".into(), format!("bucket {} holds {} entries, capacity {}", b.index, b.nodes.len(), self.cap)));
            }
            let mut connected_seen = false;
            let mut last_touch = 0u64;
            for (k, _v, s) in &b.nodes {
                let r = k.raw();
                if r == self.local {
                    return Err(("local-key-stored".into(), format!("the local key is stored in bucket {}", b.index)));
                }
                if !seen.insert(r) {
                    return Err(("duplicate-key".into(), format!("key {} appears more than once in the table", short(&r))));
                }
                if self.bucket_of(&r) != Some(b.index) {
                    return Err(("key-in-wrong-bucket".into(), format!("key {} (log-distance {:?}) lives in bucket {}", short(&r), self.bucket_of(&r), b.index)));
                }
                match s {
                    NodeStatus::Connected => {
                        if !connected_seen {
                            connected_seen = true;
                            last_touch = 0;
                        }
                    }
                    NodeStatus::Disconnected => {
                        if connected_seen {
                            return Err(("connected-before-disconnected".into(), format!("bucket {}: a Disconnected entry follows a Connected one", b.index)));
                        }
                    }
                }
                match self.members.get(&r) {
                    None => return Err(("entry-appeared".into(), format!("key {} is in bucket {} but no insert/apply put it there", short(&r), b.index))),
                    Some(m) => {
                        if m.status != *s {
                            return Err(("status-mismatch".into(), format!("key {}: table says {:?}, last status set was {:?}", short(&r), s, m.status)));
                        }
                        if m.touch < last_touch {
                            return Err((
                                "order-not-least-recently-updated".into(),
                                format!("bucket {}: key {} (touch #{}) comes after an entry touched later (#{}) within the {:?} class", b.index, short(&r), m.touch, last_touch, s),
                            ));
                        }
                        last_touch = m.touch;
                    }
                }
            }
        }
        if let Some(k) = self.members.keys().find(|k| !seen.contains(*k)) {
            return Err(("entry-vanished".into(), format!("key {} was inserted and never removed/evicted but is not in the table", short(k))));
        }
        // pending view
        let mut post_pending: HashMap<usize, (B32, NodeStatus)> = HashMap::new();
        for b in post {
            if let Some((k, _v, s, _ready)) = &b.pending {
                let r = k.raw();
                if r == self.local {
                    return Err(("local-key-pending".into(), "the local key is pending".into()));
                }
                if self.bucket_of(&r) != Some(b.index) {
                    return Err(("pending-in-wrong-bucket".into(), format!("pending key {} in bucket {}", short(&r), b.index)));
                }
                if seen.contains(&r) {
                    return Err(("duplicate-key".into(), format!("key {} is both stored and pending", short(&r))));
                }
                post_pending.insert(b.index, (r, *s));
            }
        }
        for (b, (r, s)) in &post_pending {
            match self.pending.get(b) {
                Some(p) if p.key == *r && p.status == *s => {}
                other => return Err(("pending-mismatch".into(), format!("bucket {b}: table has pending ({}, {:?}), monitor recorded {:?}", short(r), s, other.map(|p| (short(&p.key), p.status))))),
            }
        }
        let dropped: Vec<usize> = self.pending.keys().filter(|b| !post_pending.contains_key(b)).cloned().collect();
        for b in dropped {
            self.pending.remove(&b);
            self.pending_dropped += 1;
            self.sig.push_u64(0xD0);
        }
        Ok(())
    }
}

struct World<K> {
    keys: Vec<K>,
    local: K,
    t: Table<K>,
    mon: Monitor,
    now: Duration,
}

impl<K: RKey> World<K> {
    fn new(local: K, keys: Vec<K>, cap: usize, timeout: Duration) -> Self {
        clock::freeze();
        let mon = Monitor::new(local.raw(), cap, timeout);
        World { t: Table::new(local.clone(), NonZeroUsize::new(cap).unwrap(), timeout), keys, local, mon, now: Duration::ZERO }
    }
    fn key(&self, i: usize) -> &K {
        if i >= self.keys.len() { &self.local } else { &self.keys[i] }
    }

    fn step(&mut self, op: Op, check: &Check) -> Result<(), Fail> {
        let pre = self.t.peek();
        enum Res<K> {
            Ins(InsertOutcome<K>),
            Upd(EntryKind),
            Rem(EntryKind, Option<(K, u32, NodeStatus)>),
            Kind(EntryKind),
            Bucket(Option<usize>),
            Nothing,
        }
        let key = match op {
            Op::Insert(i, _) | Op::Update(i, _) | Op::Remove(i) | Op::Closest(i) | Op::Kind(i) | Op::BucketOf(i) => Some(self.key(i).clone()),
            _ => None,
        };
        let t = &mut self.t;
        let res = catch(|| match op {
            Op::Insert(_, c) => Res::Ins(t.insert(key.as_ref().unwrap(), 0, st(c))),
            Op::Update(_, c) => Res::Upd(t.update(key.as_ref().unwrap(), st(c))),
            Op::Remove(_) => {
                let (k, n) = t.remove(key.as_ref().unwrap());
                Res::Rem(k, n)
            }
            Op::Advance(ns) => {
                clock::advance(Duration::from_nanos(ns));
                Res::Nothing
            }
            Op::Snapshot => {
                let _ = t.snapshot();
                Res::Nothing
            }
            Op::Closest(_) => {
                let _ = t.closest_keys(key.as_ref().unwrap());
                Res::Nothing
            }
            Op::Kind(_) => Res::Kind(t.entry_kind(key.as_ref().unwrap())),
            Op::BucketOf(_) => Res::Bucket(t.bucket_of(key.as_ref().unwrap()).map(|b| b.0)),
        })
        .map_err(|p| (format!("panic@{}", p.site()), format!("panic: {}", p.msg)))?;
        if let Op::Advance(ns) = op {
            self.now += Duration::from_nanos(ns);
        }
        let mut applied = vec![];
        while let Some(a) = self.t.take_applied_pending() {
            applied.push(a);
        }
        let post = self.t.peek();
        let now = self.now;
        self.mon.on_applied(&applied, &pre, now)?;
        // (c) op-specific
        let kraw = key.as_ref().map(|k| k.raw());
        let mut expected = kraw.map(|k| self.mon.expected_kind(&k));
        // A due pending entry may be *dropped* by the access itself (bucket full of connected
        // entries): the statement does not judge drops, so "monitor says Pending, table says
        // Absent" is folded as a drop, not reported.
        if let (Some(EntryKind::Pending(_)), Some(k)) = (expected, kraw) {
            let observed_absent = match &res {
                Res::Ins(o) => !matches!(o, InsertOutcome::NotAbsent(_)),
                Res::Upd(kind) | Res::Rem(kind, _) | Res::Kind(kind) => *kind == EntryKind::Absent,
                _ => false,
            };
            if observed_absent {
                let b = self.mon.bucket_of(&k).expect("pending implies not local");
                self.mon.pending.remove(&b);
                self.mon.pending_dropped += 1;
                check.count("pending_dropped_at_access_of_its_own_key", 1);
                expected = Some(EntryKind::Absent);
            }
        }
        match (&op, res) {
            (Op::Insert(_, c), Res::Ins(out)) => {
                let k = kraw.unwrap();
                let b = self.mon.bucket_of(&k);
                match out {
                    InsertOutcome::NotAbsent(kind) => {
                        if Some(kind) != expected {
                            return Err((format!("entry-kind-mismatch:{}", kind_name(&kind)), format!("insert({}) found the entry {:?}, monitor expects {:?}", short(&k), kind, expected)));
                        }
                        self.mon.sig.push_u64(1);
                        check.count("insert_not_absent", 1);
                    }
                    other => {
                        if expected != Some(EntryKind::Absent) {
                            return Err((format!("entry-kind-mismatch:Absent"), format!("insert({}) treated the entry as absent, monitor expects {:?}", short(&k), expected)));
                        }
                        let b = b.expect("absent implies not local");
                        match other {
                            InsertOutcome::Inserted => {
                                let touch = self.mon.touch();
                                self.mon.members.insert(k, Member { status: st(*c), touch });
                                self.mon.sig.push_u64(2);
                                check.count("insert_inserted", 1);
                            }
                            InsertOutcome::Pending { disconnected } => {
                                self.mon.pending.insert(b, PendingInfo { key: k, status: st(*c), inserted_at: now });
                                self.mon.pending_created += 1;
                                self.mon.sig.push_u64(3);
                                check.count("insert_pending", 1);
                                let first = post.iter().find(|s| s.index == b).and_then(|s| s.nodes.first()).map(|n| n.0.raw());
                                if first != Some(disconnected.raw()) {
                                    check.count("pending_hint_not_position0_not_judged", 1);
                                }
                            }
                            InsertOutcome::Full => {
                                self.mon.sig.push_u64(4);
                                check.count("insert_full", 1);
                                let len = post.iter().find(|s| s.index == b).map(|s| s.nodes.len()).unwrap_or(0);
                                if len < self.mon.cap {
                                    check.count("insert_full_although_room_not_judged", 1);
                                }
                            }
                            InsertOutcome::NotAbsent(_) => unreachable!(),
                        }
                    }
                }
            }
            (Op::Update(_, c), Res::Upd(kind)) => {
                let k = kraw.unwrap();
                if Some(kind) != expected {
                    return Err((format!("entry-kind-mismatch:{}", kind_name(&kind)), format!("update({}) found the entry {:?}, monitor expects {:?}", short(&k), kind, expected)));
                }
                match kind {
                    EntryKind::Present(_) => {
                        let touch = self.mon.touch();
                        self.mon.members.insert(k, Member { status: st(*c), touch });
                        check.count("update_present", 1);
                        self.mon.sig.push_u64(5 + *c as u64);
                    }
                    EntryKind::Pending(_) => {
                        let b = self.mon.bucket_of(&k).unwrap();
                        if let Some(p) = self.mon.pending.get_mut(&b) {
                            p.status = st(*c);
                        }
                        check.count("update_pending", 1);
                        self.mon.sig.push_u64(7);
                    }
                    _ => {
                        check.count("update_absent_or_self", 1);
                        self.mon.sig.push_u64(8);
                    }
                }
            }
            (Op::Remove(_), Res::Rem(kind, node)) => {
                let k = kraw.unwrap();
                if Some(kind) != expected {
                    return Err((format!("entry-kind-mismatch:{}", kind_name(&kind)), format!("remove({}) found the entry {:?}, monitor expects {:?}", short(&k), kind, expected)));
                }
                if let Some((nk, _, _)) = &node {
                    if nk.raw() != k {
                        return Err(("removed-wrong-key".into(), format!("remove({}) returned node {}", short(&k), short(&nk.raw()))));
                    }
                }
                match kind {
                    EntryKind::Present(_) => {
                        self.mon.members.remove(&k);
                        check.count("remove_present", 1);
                        self.mon.sig.push_u64(9);
                    }
                    EntryKind::Pending(_) => {
                        let b = self.mon.bucket_of(&k).unwrap();
                        self.mon.pending.remove(&b);
                        check.count("remove_pending", 1);
                        self.mon.sig.push_u64(10);
                    }
                    _ => {
                        check.count("remove_absent_or_self", 1);
                        self.mon.sig.push_u64(11);
                    }
                }
            }
            (Op::Kind(_), Res::Kind(kind)) => {
                if Some(kind) != expected {
                    return Err((format!("entry-kind-mismatch:{}", kind_name(&kind)), format!("entry({}) is {:?}, monitor expects {:?}", short(&kraw.unwrap()), kind, expected)));
                }
                check.count("op_entry_kind", 1);
                self.mon.sig.push_u64(12);
            }
            (Op::BucketOf(_), Res::Bucket(b)) => {
                if b != self.mon.bucket_of(&kraw.unwrap()) {
                    return Err(("bucket-index".into(), format!("bucket({}) = {:?}, log-distance {:?}", short(&kraw.unwrap()), b, self.mon.bucket_of(&kraw.unwrap()))));
                }
                check.count("op_bucket_of", 1);
                self.mon.sig.push_u64(13);
            }
            (Op::Advance(ns), _) => {
                check.count("op_advance", 1);
                self.mon.sig.push_u64(14);
                self.mon.sig.push_u64(*ns);
            }
            (Op::Snapshot, _) => {
                check.count("op_snapshot", 1);
                self.mon.sig.push_u64(15);
            }
            (Op::Closest(_), _) => {
                check.count("op_closest_keys", 1);
                self.mon.sig.push_u64(16);
            }
            _ => unreachable!("result kind matches op kind"),
        }
        self.mon.check_state(&post)
    }
}

fn kind_name(k: &EntryKind) -> &'static str {
    match k {
        EntryKind::SelfEntry => "SelfEntry",
        EntryKind::Present(_) => "Present",
        EntryKind::Pending(_) => "Pending",
        EntryKind::Absent => "Absent",
    }
}

fn run_history<K: RKey>(check: &Check, w: &mut World<K>, ops: &[Op], label: &str, cfg: vmon::Value) {
    DOG.with(|d| if let Some(d) = d.borrow().as_ref() { d.enter(|| format!("{label} {cfg} {ops:?}")) });
    let mut done = vec![];
    for (i, op) in ops.iter().enumerate() {
        done.push(*op);
        if let Err((sig, what)) = w.step(*op, check) {
            let keys: Vec<_> = w.keys.iter().map(|k| short(&k.raw())).collect();
            check.violation(
                sig,
                format!("{label} history, step {i} ({op:?}): {what}"),
                json!({"config": cfg, "local": short(&w.local.raw()), "keys": keys, "ops": format!("{done:?}"), "table_after": w.t.peek().iter().map(|b| json!({"bucket": b.index,
                    "nodes": b.nodes.iter().map(|n| format!("{}:{:?}", short(&n.0.raw()), n.2)).collect::<Vec<_>>(), "pending": b.pending.as_ref().map(|p| format!("{}:{:?}", short(&p.0.raw()), p.2))})).collect::<Vec<_>>()}),
            );
            break;
        }
        check.distinct("states_seen", state_hash(&w.t.peek()));
    }
    check.count("pending_created", w.mon.pending_created);
    check.count("pending_applied", w.mon.applied);
    check.count("pending_applied_with_eviction", w.mon.applied_evicting);
    check.count("pending_dropped", w.mon.pending_dropped);
    check.count("ops_total", done.len() as u64);
    check.case(w.mon.sig.0, w.mon.pending_created > 0);
    clock::unfreeze();
    DOG.with(|d| if let Some(d) = d.borrow().as_ref() { d.leave() });
}

thread_local! { static DOG: std::cell::RefCell<Option<std::sync::Arc<Dog>>> = const { std::cell::RefCell::new(None) }; }
fn arm(d: &std::sync::Arc<Dog>) {
    DOG.with(|x| if x.borrow().is_none() { *x.borrow_mut() = Some(d.clone()) });
}

fn state_hash<K: RKey>(s: &[BucketSnap<K>]) -> u64 {
    let mut h = Sig::new();
    for b in s {
        h.push_u64(b.index as u64);
        for n in &b.nodes {
            h.push(&n.0.raw());
            h.push_u64(matches!(n.2, NodeStatus::Connected) as u64);
        }
        if let Some(p) = &b.pending {
            h.push_u64(0xff);
            h.push(&p.0.raw());
            h.push_u64(matches!(p.2, NodeStatus::Connected) as u64);
        }
    }
    h.0
}

// ------------------------------------------------------------------------------------------------
// exhaustive part
// ------------------------------------------------------------------------------------------------

const T_EXH: Duration = Duration::from_secs(10);

fn alphabet(full: bool) -> Vec<Op> {
    let mut a = vec![];
    for k in 0..3 {
        a.push(Op::Insert(k, true));
        a.push(Op::Insert(k, false));
        a.push(Op::Update(k, true));
        a.push(Op::Update(k, false));
        if full {
            a.push(Op::Remove(k));
        }
    }
    a.push(Op::Advance(T_EXH.as_nanos() as u64));
    if full {
        a.push(Op::Advance(T_EXH.as_nanos() as u64 - 1));
    }
    a.push(Op::Snapshot);
    a
}

fn exhaustive_case(check: &Check, idx: u64, alpha: &[Op], depth: u32, cap: usize) {
    let mut ops = vec![];
    let mut x = idx;
    for _ in 0..depth {
        ops.push(alpha[(x % alpha.len() as u64) as usize]);
        x /= alpha.len() as u64;
    }
    // fixed geometry: local = 0x00..00, three keys in bucket 5 (distances 32, 33, 47)
    let local_raw = [0u8; 32];
    let mk = |d: u8| {
        let mut b = [0u8; 32];
        b[31] = d;
        raw_key(&b)
    };
    let mut w: World<KeyBytes> = World::new(raw_key(&local_raw), vec![mk(32), mk(33), mk(47)], cap, T_EXH);
    run_history(check, &mut w, &ops, "exhaustive", json!({"bucket_size": cap, "pending_timeout_s": 10, "depth": depth}));
}

// ------------------------------------------------------------------------------------------------
// PRNG part
// ------------------------------------------------------------------------------------------------

fn gen_ops<K: RKey>(rng: &mut Rng, w: &World<K>, n: usize, timeout: Duration) -> Vec<Op> {
    // ops are generated up front except Advance amounts, which are aimed at the earliest
    // possible due time of *some* pending entry: multiples of the timeout from earlier steps.
    let nk = w.keys.len();
    let mut ops = vec![];
    let mut t_now: u128 = 0;
    let mut marks: Vec<u128> = vec![]; // virtual times at which an insert happened (candidate pending inserts)
    let tn = timeout.as_nanos();
    for _ in 0..n {
        let k = if rng.chance(1, 25) { nk } else { rng.usize(nk) }; // nk = the local key
        let op = match rng.weighted(&[34, 22, 8, 14, 6, 5, 6, 5]) {
            0 => {
                marks.push(t_now);
                Op::Insert(k, rng.chance(3, 5))
            }
            1 => Op::Update(k, rng.bool()),
            2 => Op::Remove(k),
            3 => {
                let target = if !marks.is_empty() && rng.chance(3, 4) {
                    let m = *rng.pick(&marks[marks.len().saturating_sub(6)..]) + tn;
                    let t = match rng.below(3) {
                        0 => m.saturating_sub(1),
                        1 => m,
                        _ => m + 1,
                    };
                    if t > t_now { t - t_now } else { 1 }
                } else {
                    match rng.below(4) {
                        0 => 1,
                        1 => tn / 2 + 1,
                        2 => tn.max(1),
                        _ => 2 * tn + 1,
                    }
                };
                t_now += target;
                Op::Advance(target as u64)
            }
            4 => Op::Snapshot,
            5 => Op::Closest(k),
            6 => Op::Kind(k),
            _ => Op::BucketOf(k),
        };
        ops.push(op);
    }
    ops
}

fn prng_case(check: &Check, rng: &mut Rng) {
    let cap = match rng.below(6) {
        0 => 1,
        1 | 2 => 2,
        3 | 4 => 3,
        _ => 5,
    };
    let timeout = *rng.pick(&[Duration::ZERO, Duration::from_nanos(1), Duration::from_secs(1), Duration::from_secs(60), Duration::from_secs(61), Duration::from_secs(90), Duration::from_secs(3600)]);
    let n = 40 + rng.usize(160);
    let cfg = json!({"bucket_size": cap, "pending_timeout_ns": timeout.as_nanos() as u64});
    if rng.chance(1, 3) {
        // hashed keys as in kad::Behaviour (buckets 255, 254, ... by nature)
        let local = KBucketKey::from(rand_peer(rng));
        let keys: Vec<KBucketKey<PeerId>> = (0..10 + rng.usize(8)).map(|_| KBucketKey::from(rand_peer(rng))).collect();
        let mut w = World::new(local, keys, cap, timeout);
        let ops = gen_ops(rng, &w, n, timeout);
        check.count("histories_hashed_keys", 1);
        run_history(check, &mut w, &ops, "prng/hashed", cfg);
        sample(check, &w, &ops, "hashed");
    } else {
        let local_raw = if rng.chance(1, 5) { [0xffu8; 32] } else { rand_b32(rng) };
        let hot: Vec<u32> = (0..3).map(|_| if rng.chance(1, 4) { 2 + rng.below(3) as u32 } else { rng.below(256) as u32 }).collect();
        let mut keys = vec![];
        for _ in 0..12 {
            let i = *rng.pick(&hot);
            keys.push(raw_key(&xor32(&local_raw, &rand_with_top_bit(rng, i))));
        }
        keys.push(raw_key(&xor32(&local_raw, &pow2(0)))); // bucket 0
        keys.push(raw_key(&xor32(&local_raw, &pow2(1)))); // bucket 1
        keys.push(raw_key(&xor32(&local_raw, &[0xff; 32]))); // bucket 255, max distance
        keys.dedup_by_key(|k| k.raw());
        let mut w = World::new(raw_key(&local_raw), keys, cap, timeout);
        let ops = gen_ops(rng, &w, n, timeout);
        check.count("histories_raw_keys", 1);
        run_history(check, &mut w, &ops, "prng/raw", cfg);
        sample(check, &w, &ops, "raw");
    }
}

fn sample<K: RKey>(check: &Check, w: &World<K>, ops: &[Op], kind: &str) {
    if w.mon.applied_evicting > 0 && check.want_sample() {
        check.sample(json!({"keys": kind, "bucket_size": w.mon.cap, "pending_timeout": format!("{:?}", w.mon.timeout), "ops": ops.len(), "first_ops": format!("{:?}", &ops[..ops.len().min(8)]),
            "pending_created": w.mon.pending_created, "applied": w.mon.applied, "applied_with_eviction": w.mon.applied_evicting, "dropped": w.mon.pending_dropped,
            "final_entries": w.mon.members.len()}));
    }
}

pub fn run(args: &Args) -> i32 {
    let check: &'static Check = Box::leak(Box::new(Check::new(
        args,
        "exploration",
        "bounded-exhaustive op sequences (3 keys of one bucket; bucket_size 1: all length-d sequences over 18 ops, bucket_size 2: all length-(d+1) sequences over 14 ops; d=4 quick, 5 thorough) \
         plus PRNG histories (40-200 ops, ~14 keys in 3 hot buckets + buckets 0/1/255, raw and hashed keys, bucket_size 1-5, timeouts 0/1ns/1s/60s, clock advances aimed at timeout-1ns/+0/+1ns). \
         Non-trivial = history in which a bucket was full and a pending entry was created; distinct by (op, outcome) sequence",
    )));
    let tiny = args.extra.get("budget").map(|b| b == "tiny").unwrap_or(false);
    let d = if tiny { 1 } else { args.tier.pick(4, 5) };
    let full = alphabet(true);
    let reduced = alphabet(false);
    let n1 = (full.len() as u64).pow(d);
    let n2 = (reduced.len() as u64).pow(d + 1);
    let dog = Dog::start(check, if args.extra.get("budget").is_some() { 3_600 } else { 60 });
    vmon::par_cases(check, n1, args.threads, |i, _| {
        arm(&dog);
        exhaustive_case(check, i, &full, d, 1)
    });
    vmon::par_cases(check, n2, args.threads, |i, _| {
        arm(&dog);
        exhaustive_case(check, i, &reduced, d + 1, 2)
    });
    check.note("exhaustive", json!(format!("partly: all {n1} sequences of length {d} over {} ops (bucket_size 1) and all {n2} of length {} over {} ops (bucket_size 2)", full.len(), d + 1, reduced.len())));
    let n = if tiny { 3 } else { args.tier.pick(20_000, 500_000) };
    vmon::par_cases(check, n, args.threads, |_i, rng| {
        arm(&dog);
        prng_case(check, rng)
    });
    dog.stop();
    check.finish()
}
