//! C48 — relay rate limiters are token buckets.
//!
//! Real code: the boxed `dyn RateLimiter`s that the public builders
//! `relay::Config::{reservation_rate_per_peer, reservation_rate_per_ip, circuit_src_per_peer,
//! circuit_src_per_ip}` push into the public `reservation_rate_limiters` / `circuit_src_rate_limiters`
//! fields, driven with fabricated, non-decreasing `Instant`s (base + offset).
//!
//! Oracle (from the statement only, integer nanosecond arithmetic, no token-bucket re-implementation):
//!  * window bound: for every identity and every pair of accepted requests i <= j of that identity,
//!    `j - i + 1 <= limit + floor((t_j - t_i) / interval)` (the tightest windows start and end at an
//!    accepted request, so this covers "any time window");
//!  * idle liveness: a request of an identity whose previous request (accepted or not) lies at least
//!    `limit * interval` back must be accepted; the very first request of an identity (idle since
//!    ever) must be accepted;
//!  * the per-IP limiter ignores the peer id: a twin limiter fed the same (address, time) sequence with
//!    a constant peer id must give the identical answer sequence, and the window bound is evaluated
//!    per IP across all peer ids.
//!
//! Identities: per-peer limiter = peer id (addresses vary freely); per-IP limiter = the single IP
//! component of the address (port / transport / peer id vary freely).
//!
//! Not judged: requests whose address has no IP component (per-IP limiter; counted only), addresses
//! with several IP components (never generated), how many requests are accepted *below* the bound
//! (the statement gives an upper bound and the idle rule only).
//!
//! Interval classes: intervals that are a whole number of microseconds get the signatures
//! `window-bound-exceeded/...`; intervals that are not (1 in 8 cases) get
//! `window-bound-exceeded-nonwhole-us-interval/...` so that a defect that only exists for
//! sub-microsecond precision is distinguishable from a broken bucket.
use std::{
    num::NonZeroU32,
    sync::OnceLock,
    time::{Duration, Instant},
};

use libp2p_core::Multiaddr;
use libp2p_identity::PeerId;
use libp2p_relay::{Config, RateLimiter};
use vmon::{Args, Check, Rng, Sig, catch, json};

use crate::util;

fn peers() -> &'static Vec<PeerId> {
    static P: OnceLock<Vec<PeerId>> = OnceLock::new();
    P.get_or_init(|| (0..6).map(util::peer).collect())
}

#[derive(Clone, Copy, Debug)]
struct Cfg {
    per_ip: bool,
    circuit: bool,
    limit: u32,
    interval_ns: u64,
}
impl Cfg {
    fn kind(&self) -> &'static str {
        if self.per_ip { "per-ip" } else { "per-peer" }
    }
    fn whole_us(&self) -> bool {
        self.interval_ns % 1000 == 0
    }
    fn build(&self) -> Box<dyn RateLimiter> {
        let l = NonZeroU32::new(self.limit).unwrap();
        let i = Duration::from_nanos(self.interval_ns);
        let c = Config::default();
        let mut c = match (self.per_ip, self.circuit) {
            (false, false) => c.reservation_rate_per_peer(l, i),
            (true, false) => c.reservation_rate_per_ip(l, i),
            (false, true) => c.circuit_src_per_peer(l, i),
            (true, true) => c.circuit_src_per_ip(l, i),
        };
        // the builder pushes behind the two default limiters
        if self.circuit { c.circuit_src_rate_limiters.pop().unwrap() } else { c.reservation_rate_limiters.pop().unwrap() }
    }
}

#[derive(Clone, Debug)]
struct Ev {
    t_ns: u128,
    ident: usize, // usize::MAX = address without IP (per-ip limiter), not judged
    peer: usize,
    addr: Multiaddr,
    accepted: bool,
}

const IPS: [&str; 5] = ["/ip4/203.0.113.7", "/ip4/10.1.2.3", "/ip6/2001:db8::17", "/ip4/203.0.113.8", "/ip6/::1"];
const TAILS: [&str; 5] = ["/tcp/4001", "/tcp/1", "/udp/4001/quic-v1", "/udp/9/quic-v1/webtransport", "/tcp/443/tls/ws"];
const NOIP: [&str; 3] = ["/dns4/relay.example/tcp/4001", "/memory/77", "/dnsaddr/boot.example"];

fn gen_cfg(rng: &mut Rng) -> Cfg {
    let limit = *rng.pick(&[1u32, 1, 2, 2, 3, 5, 8, 30]);
    let whole = [1_000u64, 7_000, 1_000_000, 250_000_000, 1_000_000_000, 120_000_000_000, 3_600_000_000_000];
    let frac = [500u64, 999, 1_500, 2_700, 10_500];
    let interval_ns = if rng.chance(1, 8) { *rng.pick(&frac) } else { *rng.pick(&whole) };
    Cfg { per_ip: rng.bool(), circuit: rng.bool(), limit, interval_ns }
}

fn gen_gap(rng: &mut Rng, c: &Cfg) -> u128 {
    let i = c.interval_ns as u128;
    let l = c.limit as u128;
    match rng.weighted(&[30, 4, 6, 8, 10, 8, 6, 6, 5, 6, 5, 6, 2]) {
        // a very long idle period: a multiple of 2^32 intervals (plus a little), where a token count computed in
        // 32 bits would wrap; kept below 2^61 ns so that the whole history stays far from the end of the clock
        12 => {
            let g = i * ((1u128 << 32) * (1 + rng.below(2) as u128) + *rng.pick(&[0u128, 1, 2]) * l);
            if g < (1u128 << 61) { g } else { l * i }
        }
        0 => 0,
        1 => 1,
        2 => i / 3,
        3 => i - 1,
        4 => i,
        5 => i + 1,
        6 => 2 * i,
        7 => i * (1 + rng.below(c.limit as u64 + 1) as u128),
        8 => l * i - 1,
        9 => l * i,
        10 => l * i + 1,
        _ => rng.below((2 * i) as u64 + 1) as u128,
    }
}

fn witness(c: &Cfg, evs: &[Ev]) -> vmon::Value {
    json!({
        "limiter": c.kind(), "builder": if c.circuit { "circuit_src" } else { "reservation_rate" },
        "limit": c.limit, "interval_ns": c.interval_ns,
        "events": evs.iter().map(|e| json!({
            "t_ns": e.t_ns.to_string(), "identity": if e.ident == usize::MAX { -1 } else { e.ident as i64 },
            "peer": peers()[e.peer].to_string(), "addr": e.addr.to_string(), "accepted": e.accepted,
        })).collect::<Vec<_>>(),
    })
}

/// Returns the first violation as (signature, text), judged from the statement.
fn oracle(c: &Cfg, evs: &[Ev], check: &Check) -> Option<(String, String)> {
    let l = c.limit as u128;
    let i = c.interval_ns as u128;
    let nid = evs.iter().filter(|e| e.ident != usize::MAX).map(|e| e.ident + 1).max().unwrap_or(0);
    let mut pairs = 0u64;
    let mut idle = 0u64;
    let mut res = None;
    for id in 0..nid {
        let mine: Vec<&Ev> = evs.iter().filter(|e| e.ident == id).collect();
        // idle / fresh
        for (k, e) in mine.iter().enumerate() {
            if k == 0 {
                idle += 1;
                if !e.accepted && res.is_none() {
                    res = Some((format!("fresh-identity-refused/{}", c.kind()), format!("first request of identity {id} at t={} refused", e.t_ns)));
                }
            } else if e.t_ns - mine[k - 1].t_ns >= l * i {
                idle += 1;
                if !e.accepted && res.is_none() {
                    res = Some((
                        format!("idle-identity-refused/{}", c.kind()),
                        format!("identity {id} idle from t={} to t={} (>= limit*interval = {}) but request refused", mine[k - 1].t_ns, e.t_ns, l * i),
                    ));
                }
            }
        }
        // sliding windows
        let acc: Vec<u128> = mine.iter().filter(|e| e.accepted).map(|e| e.t_ns).collect();
        for a in 0..acc.len() {
            for b in a..acc.len() {
                pairs += 1;
                let n = (b - a + 1) as u128;
                let allowed = l + (acc[b] - acc[a]) / i;
                if n > allowed && res.is_none() {
                    let sig = if c.whole_us() { "window-bound-exceeded" } else { "window-bound-exceeded-nonwhole-us-interval" };
                    res = Some((
                        format!("{sig}/{}", c.kind()),
                        format!(
                            "identity {id}: {n} requests accepted in window [{}, {}] of length {} ns; bound limit + floor(len/interval) = {} + {} = {allowed}",
                            acc[a], acc[b], acc[b] - acc[a], l, (acc[b] - acc[a]) / i
                        ),
                    ));
                }
            }
        }
    }
    check.count("window_pairs_checked", pairs);
    check.count("idle_or_fresh_requests_checked", idle);
    res
}

fn run_case(check: &Check, rng: &mut Rng, max_events: u64) {
    let c = gen_cfg(rng);
    let nid = rng.range(1, 4) as usize;
    let n = rng.range(12, max_events);
    let base = Instant::now();
    let mut limiter = c.build();
    let mut twin = c.build(); // per-ip only: same (addr, time) sequence, constant peer id
    let mut t: u128 = 0;
    let mut evs: Vec<Ev> = Vec::with_capacity(n as usize);
    let mut twin_diff: Option<usize> = None;
    let hot = rng.usize(nid);
    for _ in 0..n {
        let g = gen_gap(rng, &c);
        t += if t + g < (1u128 << 62) { g } else { 1 };
        let now = base + Duration::from_nanos(t as u64);
        let mut ident = if rng.chance(1, 2) { hot } else { rng.usize(nid) };
        let (peer, addr): (usize, Multiaddr) = if c.per_ip {
            let p = rng.usize(peers().len());
            if rng.chance(1, 25) {
                ident = usize::MAX;
                (p, rng.pick(&NOIP).parse().unwrap())
            } else {
                (p, format!("{}{}", IPS[ident], rng.pick(&TAILS)).parse().unwrap())
            }
        } else {
            (ident, format!("{}{}", rng.pick(&IPS), rng.pick(&TAILS)).parse().unwrap())
        };
        let pid = peers()[peer];
        let got = catch(|| limiter.try_next(pid, &addr, now));
        let accepted = match got {
            Ok(b) => b,
            Err(p) => {
                evs.push(Ev { t_ns: t, ident, peer, addr, accepted: false });
                check.violation(format!("panic@{}", p.site()), format!("try_next panicked: {}", p.msg), witness(&c, &evs));
                check.case(0, false);
                return;
            }
        };
        if c.per_ip {
            match catch(|| twin.try_next(peers()[5], &addr, now)) {
                Ok(b) => {
                    if b != accepted && twin_diff.is_none() {
                        twin_diff = Some(evs.len());
                    }
                }
                Err(p) => {
                    check.violation(format!("panic@{}", p.site()), format!("try_next panicked: {}", p.msg), witness(&c, &evs));
                    check.case(0, false);
                    return;
                }
            }
        }
        evs.push(Ev { t_ns: t, ident, peer, addr, accepted });
    }
    // ---- judge
    if let Some(k) = twin_diff {
        check.violation(
            "per-ip-depends-on-peer-id",
            format!("per-IP limiter answered differently at event {k} when only the peer ids of the sequence were changed"),
            witness(&c, &evs),
        );
    }
    if let Some((sig, what)) = oracle(&c, &evs, check) {
        check.violation(sig, what, witness(&c, &evs));
    }
    // ---- evidence
    let mut sig = Sig::new().u64(c.per_ip as u64).u64(c.limit as u64).u64(c.interval_ns);
    let mut refused_seen = vec![false; nid];
    let mut refill_observed = false;
    let (mut acc, mut rej, mut noip) = (0u64, 0u64, 0u64);
    for e in &evs {
        sig.push_u64(e.ident as u64);
        sig.push_u64(e.t_ns as u64);
        sig.push_u64(e.accepted as u64);
        if e.ident == usize::MAX {
            noip += 1;
            continue;
        }
        if e.accepted {
            acc += 1;
            if refused_seen[e.ident] {
                refill_observed = true;
            }
        } else {
            rej += 1;
            refused_seen[e.ident] = true;
        }
    }
    check.case(sig.0, refill_observed);
    check.count("requests", evs.len() as u64);
    check.count("accepted", acc);
    check.count("refused", rej);
    check.count("no_ip_requests_not_judged", noip);
    check.count(if c.per_ip { "cases_per_ip" } else { "cases_per_peer" }, 1);
    if !c.whole_us() {
        check.count("cases_nonwhole_us_interval", 1);
    }
    check.distinct("configs_seen", Sig::new().u64(c.per_ip as u64).u64(c.circuit as u64).u64(c.limit as u64).u64(c.interval_ns).0);
    if refill_observed && check.want_sample() {
        let mut w = witness(&c, &evs[..evs.len().min(14)]);
        w["note"] = json!("first 14 events of the case");
        check.sample(w);
    }
}

/// Two scripted histories (minimal inputs of the `...-nonwhole-us-interval` class, see FINDINGS.md), judged
/// by the same oracle: one identity, `limit` requests at t=0 and `limit` more at t=`later_ns`.
fn fixed_probes(check: &Check) {
    for (limit, interval_ns, later_ns) in [(2u32, 1_500u64, 2_000u128), (2, 500, 500), (2, 1_000, 1_000), (1, 1_000_000_000, 999_999_999)] {
        for per_ip in [false, true] {
            let c = Cfg { per_ip, circuit: false, limit, interval_ns };
            let mut l = c.build();
            let base = Instant::now();
            let addr: Multiaddr = "/ip4/203.0.113.7/tcp/4001".parse().unwrap();
            let mut evs = vec![];
            for k in 0..2 * limit {
                let t = if k < limit { 0 } else { later_ns };
                let now = base + Duration::from_nanos(t as u64);
                let Ok(accepted) = catch(|| l.try_next(peers()[0], &addr, now)) else { return };
                evs.push(Ev { t_ns: t, ident: 0, peer: 0, addr: addr.clone(), accepted });
            }
            if let Some((sig, what)) = oracle(&c, &evs, check) {
                check.violation(sig, what, witness(&c, &evs));
            }
            check.count("fixed_probes", 1);
        }
    }
}

pub fn run(args: &Args) -> i32 {
    let check = Check::new(
        args,
        "exploration",
        "PRNG histories: limiter kind (per-peer/per-ip x reservation/circuit builder), limit in {1,2,3,5,8,30}, \
         interval 1us..1h (1/8 of cases: not a whole number of us), 1-4 identities with one hot identity, 12..N \
         requests with gaps drawn from {0,1ns,I/3,I-1,I,I+1,2I,kI,LI-1,LI,LI+1,uniform, k*2^32*I (+0,L,2L intervals)}; non-trivial = some identity \
         was refused and later accepted again (a refill was observed); distinct by (config, identity/time/outcome sequence)",
    );
    let tiny = util::tiny(args);
    let n = if tiny { 6 } else { args.tier.pick(40_000, 1_500_000) };
    let max_events = if tiny { 30 } else { args.tier.pick(120, 300) };
    let _ = peers();
    fixed_probes(&check);
    vmon::par_cases(&check, n, args.threads, |_, rng| run_case(&check, rng, max_events));
    check.note("exhaustive", json!(false));
    check.note("timestamps", json!("fabricated: one Instant::now() per case + non-decreasing nanosecond offsets"));
    check.finish()
}
