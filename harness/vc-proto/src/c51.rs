//! C51 — rendezvous registrations obey TTL, limits and refresh semantics.
//!
//! Real code: `libp2p_rendezvous::server::Registrations` (private) through the cfg(libp2p_verif)
//! facade `server::verif::Regs` (`add/remove/get/poll` forwarded 1:1; `force_expire(handle)` pushes an
//! already-ready expiry future for a registration id so that expiry runs through the real `poll`).
//! Every cookie handed back by `get` is passed through the real wire encoding
//! (`into_wire_encoding` -> `from_wire_encoding`) before it is presented again, as a client would.
//!
//! Oracle: a reference model written from the statement. Every registration submitted carries a unique
//! generation number (its single address is `/memory/<generation>`), so a returned registration names
//! exactly one `add` call. The model keeps `(peer, namespace) -> live generation`, why each dead
//! generation died (superseded / unregistered / expired) and, per cookie, the set of generations
//! already returned on that cookie chain. The model follows the real accept/refuse answers (so it
//! stays in step after a violation) and judges:
//!  * TTL window      accepted => effective TTL (None = DEFAULT_TTL = 7200) and the TTL in the returned
//!                    registration lie in [min_ttl, max_ttl]                     `accepted-ttl-out-of-range`
//!  * caps            a *new* (peer, namespace) accepted while the peer already has
//!                    max_registrations_per_peer / the server max_registrations_total live ones
//!                                                       `per-peer-cap-exceeded`, `total-cap-exceeded`
//!  * refresh         re-registering a live (peer, namespace) with a valid TTL must be accepted
//!                    (`refresh-refused-at-peer-cap` when the peer is exactly at its limit,
//!                    `refresh-refused-at-total-cap` when only the total is at its limit,
//!                    `refresh-refused` otherwise) and replaces the old generation
//!  * admission       valid TTL, new key, below both caps => accepted           `refused-below-caps`
//!  * discovery       never returns a dead generation (`discover-returned-superseded|expired|
//!                    unregistered|unknown`), honours namespace filter and limit, no duplicates in one
//!                    response; a cookie-less discovery returns exactly the live matching set
//!                    (min(limit, n) of them when limited)            `discover-missing-live-registration`
//!  * cookies         discovery with a returned cookie (same namespace filter) never returns a
//!                    generation already returned earlier on that chain           `cookie-repeat[...]`
//!
//! Not judged: the error code of a refusal; `RegistrationExpired` events (the statement is silent;
//! events for superseded registrations are counted as `expired_events_stale`); completeness of
//! cookie-carrying discoveries; discoveries whose cookie/namespace do not belong together (run for
//! panics only); with `max_stored_cookies` of 1..3 (1/6 of the cases) a chained discovery is only judged
//! when its cookie is the one issued by the immediately preceding served discovery.
//! All TTLs accepted are >= 100 s, so no real timer fires inside a case; expiry = `force_expire` + poll.
use std::{
    collections::{BTreeMap, HashMap, HashSet},
    sync::OnceLock,
    task::{Context, Poll},
};

use libp2p_core::{Multiaddr, PeerRecord, multiaddr::Protocol};
use libp2p_identity::Keypair;
use libp2p_rendezvous::{
    Cookie, Namespace, Registration,
    server::{Config, verif::Regs},
};
use vmon::{Args, Check, Rng, Sig, catch, json};

use crate::util;

const DEFAULT_TTL: u64 = 60 * 60 * 2;

fn keys() -> &'static Vec<Keypair> {
    static K: OnceLock<Vec<Keypair>> = OnceLock::new();
    K.get_or_init(|| (10..14).map(util::keypair).collect())
}

#[derive(Clone, Copy, PartialEq, Eq, Debug)]
enum Dead {
    Superseded,
    Unregistered,
    Expired,
}
impl Dead {
    fn name(self) -> &'static str {
        match self {
            Dead::Superseded => "superseded",
            Dead::Unregistered => "unregistered",
            Dead::Expired => "expired",
        }
    }
}

#[derive(Clone, Debug)]
struct Cfg {
    min_ttl: u64,
    max_ttl: u64,
    per_peer: usize,
    total: usize,
    cookies: Option<usize>,
    npeers: usize,
    namespaces: Vec<&'static str>,
}

struct Chain {
    seen: HashSet<u64>,
    filter: Option<usize>,
}

struct Model {
    live: BTreeMap<(usize, usize), (u64, u64)>, // (peer, ns) -> (generation, handle)
    dead: HashMap<u64, (Dead, u64, (usize, usize))>, // generation -> (why, handle, key)
    chains: HashMap<Vec<u8>, Chain>,
    /// cookie returned by the most recent served discovery (only consulted when cfg.cookies is Some)
    last_cookie: Option<Vec<u8>>,
}
impl Model {
    fn peer_count(&self, p: usize) -> usize {
        self.live.keys().filter(|k| k.0 == p).count()
    }
    /// May the chain of cookie `c` be judged? With the default cookie store (10 000 entries) always;
    /// with a tiny store only the cookie issued by the immediately preceding served discovery is
    /// certain to be still stored (nothing was inserted after it).
    fn cookie_live(&self, c: &[u8], cap: Option<usize>) -> bool {
        self.chains.contains_key(c) && (cap.is_none() || self.last_cookie.as_deref() == Some(c))
    }
}

fn gen_cfg(rng: &mut Rng) -> Cfg {
    let (min_ttl, max_ttl) = *rng.pick(&[(100u64, 100u64), (100, 150), (7200, 259_200), (7201, 8000), (100, 7199), (100, 7200), (300, 100_000)]);
    let mut namespaces = vec!["a", "b", "chat", "x/y"];
    rng.shuffle(&mut namespaces);
    namespaces.truncate(rng.range(1, 4) as usize);
    if rng.chance(1, 10) {
        namespaces.push("");
    }
    Cfg {
        min_ttl,
        max_ttl,
        per_peer: *rng.pick(&[1usize, 2, 2, 3, 32]),
        total: *rng.pick(&[1usize, 2, 3, 5, 10_000, 10_000]),
        cookies: if rng.chance(1, 6) { Some(rng.range(1, 3) as usize) } else { None },
        npeers: rng.range(2, 4) as usize,
        namespaces,
    }
}

fn generation_of(r: &Registration) -> Option<u64> {
    match r.record.addresses().first()?.iter().next()? {
        Protocol::Memory(g) => Some(g),
        _ => None,
    }
}

fn ns(cfg: &Cfg, i: usize) -> Namespace {
    Namespace::new(cfg.namespaces[i].to_string()).expect("short namespace")
}

struct Case<'a> {
    check: &'a Check,
    cfg: Cfg,
    log: Vec<String>,
    violated: bool,
}
impl Case<'_> {
    fn violation(&mut self, sig: &str, what: String) {
        self.violated = true;
        self.check.violation(
            sig,
            what,
            json!({
                "config": {"min_ttl": self.cfg.min_ttl, "max_ttl": self.cfg.max_ttl, "max_registrations_per_peer": self.cfg.per_peer,
                           "max_registrations_total": self.cfg.total, "max_stored_cookies": self.cfg.cookies, "namespaces": self.cfg.namespaces},
                "ops_until_violation": self.log,
            }),
        );
    }
}

fn run_case(check: &Check, rng: &mut Rng, max_ops: u64) {
    let cfg = gen_cfg(rng);
    let mut rc = Config::default()
        .with_min_ttl(cfg.min_ttl)
        .with_max_ttl(cfg.max_ttl)
        .with_max_registration_per_peer(cfg.per_peer)
        .with_max_registration_total(cfg.total);
    if let Some(c) = cfg.cookies {
        rc = rc.with_max_stored_cookies(c);
    }
    let mut regs = Regs::new(rc);
    let mut m = Model { live: BTreeMap::new(), dead: HashMap::new(), chains: HashMap::new(), last_cookie: None };
    let mut case = Case { check, cfg: cfg.clone(), log: vec![], violated: false };
    let mut next_gen = 1u64;
    let nops = rng.range(8, max_ops);
    let mut sig = Sig::new().u64(cfg.min_ttl).u64(cfg.max_ttl).u64(cfg.per_peer as u64).u64(cfg.total as u64);
    let (mut refreshes, mut expiries, mut chained) = (0u64, 0u64, 0u64);
    let (fl, w) = vmon::exec::flag_waker();
    let _ = fl;
    let mut cx = Context::from_waker(&w);
    let nns = cfg.namespaces.len();

    for opi in 0..=nops {
        let last = opi == nops;
        let op = if last { 2 } else { rng.weighted(&[40, 8, 30, 16, 2]) };
        match op {
            // ------------------------------------------------------------------ register
            0 => {
                let p = rng.usize(cfg.npeers);
                // bias towards keys that exist (refresh) once something is registered
                let n = if !m.live.is_empty() && rng.chance(2, 5) {
                    let ks: Vec<_> = m.live.keys().filter(|k| k.0 == p).collect();
                    if ks.is_empty() { rng.usize(nns) } else { ks[rng.usize(ks.len())].1 }
                } else {
                    rng.usize(nns)
                };
                let ttl: Option<u64> = match rng.weighted(&[10, 4, 14, 14, 4, 10, 1, 1]) {
                    0 => None,
                    1 => Some(cfg.min_ttl - 1),
                    2 => Some(cfg.min_ttl),
                    3 => Some(cfg.max_ttl),
                    4 => Some(cfg.max_ttl + 1),
                    5 => Some(rng.range(cfg.min_ttl, cfg.max_ttl)),
                    6 => Some(0),
                    _ => Some(u64::MAX),
                };
                let eff = ttl.unwrap_or(DEFAULT_TTL);
                let ttl_ok = eff >= cfg.min_ttl && eff <= cfg.max_ttl;
                let g = next_gen;
                next_gen += 1;
                let addr: Multiaddr = Multiaddr::empty().with(Protocol::Memory(g));
                let record = PeerRecord::new(&keys()[p], vec![addr]).expect("sign record");
                let existing = m.live.get(&(p, n)).copied();
                let pc = m.peer_count(p);
                let tc = m.live.len();
                let res = match catch(|| regs.add(ns(&cfg, n), record, ttl)) {
                    Ok(r) => r,
                    Err(pn) => {
                        case.log.push(format!("register peer{p} ns{n:?} ttl={ttl:?} gen={g} -> PANIC"));
                        case.violation(&format!("panic@{}", pn.site()), format!("add panicked: {}", pn.msg));
                        break;
                    }
                };
                case.log.push(format!(
                    "register peer{p} ns={:?} ttl={ttl:?} gen={g} [peer has {pc}, total {tc}, {}] -> {}",
                    cfg.namespaces[n],
                    if existing.is_some() { "refresh" } else { "new key" },
                    match &res {
                        Ok((r, _)) => format!("Ok(ttl={})", r.ttl),
                        Err(e) => format!("Err({e:?})"),
                    }
                ));
                sig.push_u64(((p as u64) << 8) | n as u64);
                sig.push_u64(res.is_ok() as u64 | (ttl_ok as u64) << 1 | (existing.is_some() as u64) << 2);
                match res {
                    Ok((r, handle)) => {
                        if !ttl_ok || r.ttl < cfg.min_ttl || r.ttl > cfg.max_ttl {
                            case.violation(
                                "accepted-ttl-out-of-range",
                                format!("registration with requested ttl {ttl:?} (effective {eff}) accepted with ttl {} outside [{}, {}]", r.ttl, cfg.min_ttl, cfg.max_ttl),
                            );
                        }
                        if generation_of(&r) != Some(g) || r.namespace != ns(&cfg, n) || r.record.peer_id() != keys()[p].public().to_peer_id() {
                            case.violation("add-returned-other-registration", format!("add returned {:?}/{} for submitted generation {g}", generation_of(&r), r.namespace));
                        }
                        match existing {
                            Some((og, oh)) => {
                                refreshes += 1;
                                check.count("op_register_refresh_ok", 1);
                                m.dead.insert(og, (Dead::Superseded, oh, (p, n)));
                            }
                            None => {
                                check.count("op_register_new_ok", 1);
                                if pc >= cfg.per_peer {
                                    case.violation("per-peer-cap-exceeded", format!("peer{p} had {pc} live registrations (max_registrations_per_peer={}) and a registration for a new namespace was accepted", cfg.per_peer));
                                }
                                if tc >= cfg.total {
                                    case.violation("total-cap-exceeded", format!("{tc} live registrations (max_registrations_total={}) and a new registration was accepted", cfg.total));
                                }
                            }
                        }
                        m.live.insert((p, n), (g, handle));
                    }
                    Err(_) if !ttl_ok => check.count("op_register_refused_ttl", 1),
                    Err(e) => {
                        check.count("op_register_refused_other", 1);
                        if existing.is_some() {
                            check.count("refresh_refusals", 1);
                            let s = if pc == cfg.per_peer {
                                "refresh-refused-at-peer-cap"
                            } else if tc >= cfg.total {
                                "refresh-refused-at-total-cap"
                            } else {
                                "refresh-refused"
                            };
                            case.violation(
                                s,
                                format!("re-registration of live (peer{p}, {:?}) with valid ttl refused with {e:?}; peer has {pc}/{} live, server {tc}/{}", cfg.namespaces[n], cfg.per_peer, cfg.total),
                            );
                        } else if pc < cfg.per_peer && tc < cfg.total {
                            case.violation(
                                "refused-below-caps",
                                format!("new registration with valid ttl refused with {e:?} although peer has {pc}/{} and server {tc}/{} live registrations", cfg.per_peer, cfg.total),
                            );
                        }
                    }
                }
                if existing.is_some() && pc == cfg.per_peer && ttl_ok {
                    check.count("refresh_attempts_at_peer_cap", 1);
                }
                if existing.is_none() && tc == cfg.total && pc < cfg.per_peer && ttl_ok {
                    check.count("new_key_attempts_at_total_cap", 1);
                }
            }
            // ------------------------------------------------------------------ unregister
            1 => {
                let (p, n) = if !m.live.is_empty() && rng.chance(3, 4) {
                    *m.live.keys().nth(rng.usize(m.live.len())).unwrap()
                } else {
                    (rng.usize(cfg.npeers), rng.usize(nns))
                };
                let pid = keys()[p].public().to_peer_id();
                case.log.push(format!("unregister peer{p} ns={:?}", cfg.namespaces[n]));
                if let Err(pn) = catch(|| regs.remove(ns(&cfg, n), pid)) {
                    case.violation(&format!("panic@{}", pn.site()), format!("remove panicked: {}", pn.msg));
                    break;
                }
                if let Some((g, h)) = m.live.remove(&(p, n)) {
                    m.dead.insert(g, (Dead::Unregistered, h, (p, n)));
                }
                sig.push_u64(0x100 | ((p as u64) << 4) | n as u64);
                check.count("op_unregister", 1);
            }
            // ------------------------------------------------------------------ discover
            2 => {
                // choose chain or fresh
                let known: Vec<Vec<u8>> = {
                    let mut v: Vec<_> = m.chains.keys().cloned().collect();
                    v.sort();
                    v
                };
                let use_cookie = !last && !known.is_empty() && rng.chance(3, 5);
                let (cookie_wire, mut filter) = if use_cookie {
                    // prefer recent cookies so that chains grow
                    let recent: Vec<&Vec<u8>> = m.last_cookie.iter().filter(|c| m.chains.contains_key(*c)).collect();
                    let c = if cfg.cookies.is_some() && !recent.is_empty() && rng.chance(3, 4) {
                        recent[0].clone()
                    } else {
                        known[rng.usize(known.len())].clone()
                    };
                    let f = m.chains[&c].filter;
                    (Some(c), f)
                } else if last {
                    (None, None)
                } else {
                    (None, if rng.chance(1, 3) { None } else { Some(rng.usize(nns)) })
                };
                let mismatch = use_cookie && rng.chance(1, 20);
                if mismatch {
                    filter = if rng.bool() { None } else { Some(rng.usize(nns)) };
                }
                let limit: Option<u64> = if last { None } else { *rng.pick(&[None, None, None, Some(0), Some(1), Some(1), Some(2), Some(3)]) };
                let cookie = match &cookie_wire {
                    None => None,
                    Some(wire) => match catch(|| Cookie::from_wire_encoding(wire.clone())) {
                        Ok(Ok(c)) => Some(c),
                        Ok(Err(_)) => {
                            case.log.push(format!("cookie {} rejected by from_wire_encoding", vmon::hex(wire)));
                            case.violation("cookie-wire-encoding-rejected", "a cookie returned by discovery does not survive its own wire encoding".to_string());
                            break;
                        }
                        Err(pn) => {
                            case.violation(&format!("panic@{}", pn.site()), format!("from_wire_encoding panicked: {}", pn.msg));
                            break;
                        }
                    },
                };
                let judged_chain = !mismatch && cookie_wire.as_ref().map(|c| m.cookie_live(c, cfg.cookies)).unwrap_or(false);
                let fns = filter.map(|i| ns(&cfg, i));
                let res = match catch(|| regs.get(fns, cookie, limit)) {
                    Ok(r) => r,
                    Err(pn) => {
                        case.log.push(format!("discover filter={filter:?} cookie={:?} limit={limit:?} -> PANIC", cookie_wire.as_ref().map(|c| vmon::hex(c))));
                        case.violation(&format!("panic@{}", pn.site()), format!("get panicked: {}", pn.msg));
                        break;
                    }
                };
                let fname = filter.map(|i| cfg.namespaces[i]);
                match res {
                    Err(()) => {
                        case.log.push(format!("discover ns={fname:?} cookie={:?} limit={limit:?} -> Err(mismatch)", cookie_wire.as_ref().map(|c| vmon::hex(c))));
                        check.count("op_discover_err", 1);
                        if !mismatch {
                            check.count("discover_err_without_mismatch", 1);
                        }
                    }
                    Ok((list, new_cookie)) => {
                        let gens: Vec<Option<u64>> = list.iter().map(generation_of).collect();
                        case.log.push(format!(
                            "discover ns={fname:?} cookie={:?} limit={limit:?} -> gens {:?} new cookie {}",
                            cookie_wire.as_ref().map(|c| vmon::hex(c)),
                            gens.iter().map(|g| g.map(|x| x as i64).unwrap_or(-1)).collect::<Vec<_>>(),
                            vmon::hex(&new_cookie.clone().into_wire_encoding())
                        ));
                        if use_cookie {
                            chained += judged_chain as u64;
                            check.count(if judged_chain { "op_discover_chained_judged" } else { "op_discover_chained_unjudged" }, 1);
                        } else {
                            check.count("op_discover_plain", 1);
                        }
                        let mut returned: HashSet<u64> = HashSet::new();
                        for (r, g) in list.iter().zip(&gens) {
                            let Some(g) = *g else {
                                case.violation("discover-returned-unknown", format!("returned registration with unexpected addresses {:?}", r.record.addresses()));
                                continue;
                            };
                            if !returned.insert(g) {
                                case.violation("discover-duplicate-in-response", format!("generation {g} twice in one response"));
                            }
                            let live_key = m.live.iter().find(|(_, v)| v.0 == g).map(|(k, _)| *k);
                            match live_key {
                                Some((p, n)) => {
                                    if r.record.peer_id() != keys()[p].public().to_peer_id() || r.namespace != ns(&cfg, n) {
                                        case.violation("discover-returned-unknown", format!("generation {g} returned under another peer/namespace"));
                                    }
                                    if let Some(f) = filter {
                                        if cfg.namespaces[f] != cfg.namespaces[n] {
                                            case.violation("discover-wrong-namespace", format!("discovery for {:?} returned a registration in {:?}", cfg.namespaces[f], cfg.namespaces[n]));
                                        }
                                    }
                                }
                                None => match m.dead.get(&g) {
                                    Some((why, _, _)) => {
                                        let why = *why;
                                        case.violation(&format!("discover-returned-{}", why.name()), format!("discovery returned generation {g}, which is {}", why.name()));
                                    }
                                    None => case.violation("discover-returned-unknown", format!("discovery returned generation {g}, which was never accepted")),
                                },
                            }
                        }
                        if let Some(l) = limit {
                            if list.len() as u64 > l {
                                case.violation("discover-over-limit", format!("{} registrations returned for limit {l}", list.len()));
                            }
                        }
                        let matching: HashSet<u64> = m
                            .live
                            .iter()
                            .filter(|(k, _)| filter.map(|f| cfg.namespaces[f] == cfg.namespaces[k.1]).unwrap_or(true))
                            .map(|(_, v)| v.0)
                            .collect();
                        if cookie_wire.is_none() {
                            let want = limit.map(|l| (l as usize).min(matching.len())).unwrap_or(matching.len());
                            let got_live = returned.intersection(&matching).count();
                            if got_live != want {
                                case.violation(
                                    if limit.is_some() { "discover-missing-live-registration/limited" } else { "discover-missing-live-registration" },
                                    format!("cookie-less discovery ns={fname:?} limit={limit:?} returned {got_live} of the {} live matching registrations (expected {want})", matching.len()),
                                );
                            }
                            if filter.is_none() && limit.is_none() {
                                // full view: caps as seen from outside
                                let mut per_peer: HashMap<String, usize> = HashMap::new();
                                for r in &list {
                                    *per_peer.entry(r.record.peer_id().to_string()).or_default() += 1;
                                }
                                if list.len() > cfg.total {
                                    case.violation("discover-shows-more-than-total-cap", format!("{} registrations visible, max_registrations_total={}", list.len(), cfg.total));
                                }
                                if let Some((p, c)) = per_peer.iter().find(|(_, c)| **c > cfg.per_peer) {
                                    case.violation("discover-shows-more-than-peer-cap", format!("{c} registrations of {p} visible, max_registrations_per_peer={}", cfg.per_peer));
                                }
                                check.count("full_views_compared", 1);
                            }
                        }
                        if judged_chain {
                            let seen = &m.chains[cookie_wire.as_ref().unwrap()].seen;
                            if let Some(g) = returned.iter().find(|g| seen.contains(g)) {
                                let g = *g;
                                let s = if fname == Some("") { "cookie-repeat-empty-namespace" } else { "cookie-repeat" };
                                case.violation(s, format!("generation {g} was already returned earlier on this cookie chain and is returned again"));
                            }
                        }
                        // new chain state
                        let mut seen: HashSet<u64> = if judged_chain { m.chains[cookie_wire.as_ref().unwrap()].seen.clone() } else { HashSet::new() };
                        seen.extend(returned.iter().copied());
                        let wire = match catch(|| new_cookie.clone().into_wire_encoding()) {
                            Ok(wv) => wv,
                            Err(pn) => {
                                case.violation(&format!("panic@{}", pn.site()), format!("into_wire_encoding panicked: {}", pn.msg));
                                break;
                            }
                        };
                        if !mismatch {
                            m.chains.insert(wire.clone(), Chain { seen, filter });
                        }
                        m.last_cookie = Some(wire);
                        sig.push_u64(0x200 | (use_cookie as u64) << 6 | (returned.len() as u64) << 8 | filter.map(|f| f as u64 + 1).unwrap_or(0));
                    }
                }
            }
            // ------------------------------------------------------------------ expire (+ poll)
            3 => {
                let k = rng.range(1, 3);
                let mut forced_live: Vec<u64> = vec![];
                for _ in 0..k {
                    let live_handles: Vec<(u64, u64, (usize, usize))> = m.live.iter().map(|(k, v)| (v.0, v.1, *k)).collect();
                    let mut dead_handles: Vec<(u64, u64)> = m.dead.iter().map(|(g, v)| (*g, v.1)).collect();
                    dead_handles.sort();
                    if !live_handles.is_empty() && (dead_handles.is_empty() || rng.chance(7, 10)) {
                        let (g, h, key) = live_handles[rng.usize(live_handles.len())];
                        case.log.push(format!("force_expire live gen={g} (peer{} ns={:?})", key.0, cfg.namespaces[key.1]));
                        regs.force_expire(h);
                        m.live.remove(&key);
                        m.dead.insert(g, (Dead::Expired, h, key));
                        forced_live.push(g);
                        expiries += 1;
                        check.count("op_expire_live", 1);
                        sig.push_u64(0x300 | g);
                    } else if !dead_handles.is_empty() {
                        let (g, h) = dead_handles[rng.usize(dead_handles.len())];
                        case.log.push(format!("force_expire stale gen={g} ({})", m.dead[&g].0.name()));
                        regs.force_expire(h);
                        check.count("op_expire_stale", 1);
                        sig.push_u64(0x400);
                    }
                }
                let mut evs = vec![];
                let mut panicked = false;
                for _ in 0..64 {
                    match catch(|| regs.poll(&mut cx)) {
                        Ok(Poll::Ready(r)) => evs.push(generation_of(&r)),
                        Ok(Poll::Pending) => break,
                        Err(pn) => {
                            case.violation(&format!("panic@{}", pn.site()), format!("poll panicked: {}", pn.msg));
                            panicked = true;
                            break;
                        }
                    }
                }
                if panicked {
                    break;
                }
                case.log.push(format!("poll -> expired events for gens {:?}", evs.iter().map(|g| g.map(|x| x as i64).unwrap_or(-1)).collect::<Vec<_>>()));
                for g in evs.iter().flatten() {
                    if forced_live.contains(g) {
                        check.count("expired_events_current", 1);
                    } else {
                        check.count("expired_events_stale", 1);
                    }
                }
            }
            // ------------------------------------------------------------------ idle poll
            _ => {
                match catch(|| regs.poll(&mut cx)) {
                    Ok(Poll::Ready(r)) => {
                        case.log.push(format!("idle poll -> unexpected expiry of gen {:?}", generation_of(&r)));
                        check.inconclusive("a real TTL timer fired inside a case (case too slow?)");
                        return;
                    }
                    Ok(Poll::Pending) => {}
                    Err(pn) => {
                        case.violation(&format!("panic@{}", pn.site()), format!("poll panicked: {}", pn.msg));
                        break;
                    }
                }
                check.count("op_idle_poll", 1);
            }
        }
        let mut st = Sig::new();
        for p in 0..cfg.npeers {
            st.push_u64(m.peer_count(p) as u64);
        }
        check.distinct("states_seen", st.u64(cfg.per_peer as u64).u64(cfg.total as u64).0);
    }
    let nontrivial = refreshes > 0 && expiries > 0 && chained > 0;
    check.case(sig.0, nontrivial);
    if cfg.cookies.is_some() {
        check.count("cases_small_cookie_cache", 1);
    }
    if nontrivial && !case.violated && check.want_sample() {
        check.sample(json!({
            "config": {"min_ttl": cfg.min_ttl, "max_ttl": cfg.max_ttl, "per_peer": cfg.per_peer, "total": cfg.total, "max_stored_cookies": cfg.cookies},
            "ops": case.log.iter().take(25).collect::<Vec<_>>(),
        }));
    }
}

pub fn run(args: &Args) -> i32 {
    let check = Check::new(
        args,
        "exploration",
        "PRNG histories of 8..N ops (register new/refresh with TTLs at and around both bounds, unregister, discover with/without \
         cookie, namespace filter and limit, force_expire of live and stale ids + poll) over 2-4 peers x 1-5 namespaces with small \
         per-peer (1-3,32) and total (1-5,10000) caps; non-trivial = history contains an accepted refresh, a processed expiry and a \
         judged cookie-chained discovery; distinct by (config, op/outcome sequence)",
    );
    let tiny = util::tiny(args);
    let n = if tiny { 10 } else { args.tier.pick(30_000, 600_000) };
    let max_ops = if tiny { 40 } else { args.tier.pick(50, 120) };
    let _ = keys();
    vmon::par_cases(&check, n, args.threads, |_, rng| run_case(&check, rng, max_ops));
    check.note("exhaustive", json!(false));
    check.note("expiry_driver", json!("verif::Regs::force_expire(handle) + real Registrations::poll; no real timer fires (all accepted TTLs >= 100 s)"));
    check.finish()
}
