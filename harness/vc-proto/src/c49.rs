//! C49 — relayed circuits forward faithfully within their limits.
//!
//! Real code: the crate-private `libp2p_relay::copy_future::CopyFuture` (what every relayed circuit
//! runs) through the cfg(libp2p_verif) constructor facade `libp2p_relay::verif::copy_future`, placed
//! between two `vmon::pipe` duplexes. The relay-side ends get PRNG schedules (1-byte .. unbounded
//! chunks, partial writes, spurious `Pending`), the harness plays both clients through the pipe
//! controls (inject / drain / close / back-pressure), so every byte count is exact and logical.
//!
//! Oracle (statement; tagged bytes: byte i of direction d is a fixed pseudo-random function of (d, i)):
//!  * prefix          whatever a client has received is, byte for byte, the beginning of what the other
//!                    client wrote (`forwarded-bytes-differ/<dir>`, `received-more-than-written/<dir>`)
//!  * byte limit      with max_circuit_bytes = M > 0 the sum forwarded in both directions never exceeds
//!                    M + 2 * 8 KiB (one `BufReader` buffer per direction)
//!                                                           `forwarded-beyond-limit-plus-buffers`
//!  * within limits   the future fails only when more than M bytes were forwarded or the maximum
//!                    duration has passed (no I/O error is injected)            `error-within-limits`
//!                    and when it resolves `Ok` both clients had closed (`ok-before-eof`) and both
//!                    received everything (`ok-but-bytes-missing`)
//!  * progress        once all input is written and closed and the outputs are drained, the future
//!                    resolves instead of parking without a wake-up registered   `stalled-with-work-pending`
//!                    (and if more than M + 16 KiB were offered it resolves with an error: `ok-beyond-limit`)
//!  * duration        `Err(TimedOut)` is never observed earlier than max_circuit_duration after the
//!                    stamp taken *before* the future was created (`timeout-before-max-duration`);
//!                    after a canary `Delay(duration + 5 ms)` created *after* the future has fired
//!                    (same timer heap, later deadline) one more poll of an idle, still open circuit
//!                    must end it with an error                       `no-error-after-max-duration`
//! Not judged: M = 0 (means "unlimited" in this code base: only prefix/progress are judged); which of
//! Ok/Err is produced when the total offered lies in (M, M + 16 KiB]; the error kind; whether the
//! destination is closed after EOF (counted as `eof_propagated`). Watchdogs (poll budget, canary
//! wait) => inconclusive.
use std::{
    io,
    task::Poll,
    time::{Duration, Instant},
};

use futures_timer::Delay;
use libp2p_relay::verif::copy_future;
use vmon::{
    Args, Check, Rng, Sig,
    exec::{block_on_timeout, poll_once},
    json,
    pipe::{DirCtl, Sched, pipe},
};

use crate::util::{self, run_until_parked};

const BUF: u64 = 8 * 1024;
/// Output pipes are never truly unbounded: a forwarder that runs away inside one `poll` (e.g. re-sending
/// the same buffer for ever) must hit back-pressure and return, not eat the machine's memory. Larger than
/// anything a case offers (<= ~77 KiB), so it never limits a legitimate run.
const CAP: usize = 1 << 18;

fn tag(dir: u8, i: u64) -> u8 {
    let x = (i ^ ((dir as u64) << 56)).wrapping_mul(0x9E37_79B9_7F4A_7C15);
    (x >> 29) as u8 ^ (x >> 11) as u8
}

struct Side {
    name: &'static str,
    dir: u8,
    /// client -> relay
    to_relay: DirCtl,
    /// relay -> this client
    from_relay: DirCtl,
    planned: u64,
    written: u64,
    closed: bool,
    received: u64,
}

struct Ctx<'a> {
    check: &'a Check,
    max: u64,
    desc: String,
    log: Vec<String>,
    violated: bool,
}
impl Ctx<'_> {
    fn violation(&mut self, sig: impl Into<String>, what: String) {
        self.violated = true;
        self.check.violation(sig, what, json!({"case": self.desc, "max_circuit_bytes": self.max, "ops": self.log}));
    }
}

fn write_some(s: &mut Side, n: u64) -> u64 {
    let n = n.min(s.planned - s.written);
    if n == 0 || s.closed {
        return 0;
    }
    let data: Vec<u8> = (0..n).map(|j| tag(s.dir, s.written + j)).collect();
    s.to_relay.inject(&data);
    s.written += n;
    n
}

/// drain what the relay delivered to `rx`, compare with what `tx` wrote
fn drain(cx: &mut Ctx<'_>, rx: &mut Side, tx_dir: u8, tx_written: u64) -> u64 {
    let v = rx.from_relay.drain();
    for (j, b) in v.iter().enumerate() {
        let off = rx.received + j as u64;
        if off >= tx_written {
            cx.violation(format!("received-more-than-written/to-{}", rx.name), format!("client {} received byte #{off} but only {tx_written} were written", rx.name));
            break;
        }
        if *b != tag(tx_dir, off) {
            cx.violation(
                format!("forwarded-bytes-differ/to-{}", rx.name),
                format!("client {} received 0x{:02x} at offset {off}, the byte written there was 0x{:02x}", rx.name, b, tag(tx_dir, off)),
            );
            break;
        }
    }
    rx.received += v.len() as u64;
    v.len() as u64
}

fn forwarded(a: &Side, b: &Side) -> u64 {
    a.from_relay.written() + b.from_relay.written()
}

enum End_ {
    Ok,
    Err(io::Error),
}

#[allow(clippy::too_many_arguments)]
fn judge_end(cx: &mut Ctx<'_>, a: &mut Side, b: &mut Side, res: End_, t_before: Instant, duration: Duration) {
    let (aw, bw) = (a.written, b.written);
    drain(cx, a, b.dir, bw);
    drain(cx, b, a.dir, aw);
    let fwd = forwarded(a, b);
    match res {
        End_::Ok => {
            cx.check.count("end_ok", 1);
            if !(a.closed && b.closed) {
                cx.violation("ok-before-eof", format!("future resolved Ok while a client had not closed (a closed: {}, b closed: {})", a.closed, b.closed));
            } else if a.received != bw || b.received != aw {
                cx.violation("ok-but-bytes-missing", format!("future resolved Ok; a->b {} of {aw} bytes delivered, b->a {} of {bw}", b.received, a.received));
            }
            if cx.max > 0 && aw + bw > cx.max + 2 * BUF {
                cx.violation("ok-beyond-limit", format!("{} bytes offered with max_circuit_bytes={} and the circuit ended Ok", aw + bw, cx.max));
            }
            if a.from_relay.is_closed() && b.from_relay.is_closed() {
                cx.check.count("eof_propagated", 1);
            }
        }
        End_::Err(e) if e.kind() == io::ErrorKind::TimedOut => {
            cx.check.count("end_timeout", 1);
            let el = t_before.elapsed();
            if el < duration {
                cx.violation("timeout-before-max-duration", format!("Err(TimedOut) observed {el:?} after creation, max_circuit_duration={duration:?}"));
            }
        }
        End_::Err(e) => {
            cx.check.count("end_err", 1);
            if cx.max == 0 || fwd <= cx.max {
                cx.violation("error-within-limits", format!("future failed with '{e}' after forwarding {fwd} bytes, max_circuit_bytes={}", cx.max));
            }
        }
    }
}

fn limit_check(cx: &mut Ctx<'_>, a: &Side, b: &Side) {
    let fwd = forwarded(a, b);
    if cx.max > 0 && fwd > cx.max + 2 * BUF {
        cx.violation("forwarded-beyond-limit-plus-buffers", format!("{fwd} bytes forwarded, max_circuit_bytes={} (+ 2 x {BUF} buffer allowance)", cx.max));
    }
}

fn byte_case(check: &Check, rng: &mut Rng) {
    let max = *rng.pick(&[0u64, 1, 100, 100, 1000, 10_000, 10_000, 20_000]);
    // total offered relative to the limit
    let band = rng.weighted(&[20, 14, 10, 10, 12, 10, 24]);
    let total = match band {
        0 => rng.range(0, max.max(300)),
        1 => max,
        2 => max.saturating_sub(1),
        3 => max + 1,
        4 => max + 2 * BUF,
        5 => max + 2 * BUF + 1,
        _ => max + 2 * BUF + rng.range(2, 40_000),
    };
    let a_share = match rng.below(4) {
        0 => 0,
        1 => total,
        _ => rng.range(0, total),
    };
    let sa = Sched::random(rng);
    let sb = Sched::random(rng);
    let desc = format!("max={max} offered a->b {a_share} b->a {} relay-src sched {} relay-dst sched {}", total - a_share, sa.describe(), sb.describe());
    let (a_client, relay_src, a2r, r2a) = pipe(Sched::smooth(), sa);
    let (relay_dst, b_client, r2b, b2r) = pipe(sb, Sched::smooth());
    let mut a = Side { name: "a", dir: 1, to_relay: a2r, from_relay: r2a, planned: a_share, written: 0, closed: false, received: 0 };
    let mut b = Side { name: "b", dir: 2, to_relay: b2r, from_relay: r2b, planned: total - a_share, written: 0, closed: false, received: 0 };
    a.from_relay.set_capacity(Some(CAP));
    b.from_relay.set_capacity(Some(CAP));
    let mut cx = Ctx { check, max, desc, log: vec![], violated: false };
    let duration = Duration::from_secs(3600);
    let t_before = Instant::now();
    let mut fut = copy_future(relay_src, relay_dst, duration, max);
    let mut sig = Sig::new().u64(max).u64(a_share).u64(total).str(&cx.desc);
    let mut done = false;
    let nops = rng.range(3, 40);
    let sizes = [1u64, 1, 7, 100, 1000, 4096, 8191, 8192, 8193, 20_000, 60_000];
    let mut budget_hit = false;

    // returns true when the future resolved
    macro_rules! poll_fut {
        ($all:expr) => {{
            let r = if $all {
                match run_until_parked(&mut fut, 5_000_000) {
                    Ok(Some(v)) => Poll::Ready(v),
                    Ok(None) => Poll::Pending,
                    Err(()) => {
                        budget_hit = true;
                        Poll::Pending
                    }
                }
            } else {
                poll_once(&mut fut)
            };
            limit_check(&mut cx, &a, &b);
            match r {
                Poll::Ready(Ok(())) => {
                    cx.log.push("future -> Ok".into());
                    judge_end(&mut cx, &mut a, &mut b, End_::Ok, t_before, duration);
                    true
                }
                Poll::Ready(Err(e)) => {
                    cx.log.push(format!("future -> Err({e})"));
                    judge_end(&mut cx, &mut a, &mut b, End_::Err(e), t_before, duration);
                    true
                }
                Poll::Pending => false,
            }
        }};
    }

    for _ in 0..nops {
        let op = rng.weighted(&[25, 25, 12, 12, 8, 5, 5]);
        sig.push_u64(op as u64);
        match op {
            0 | 1 => {
                let s = if op == 0 { &mut a } else { &mut b };
                let n = write_some(s, *rng.pick(&sizes));
                cx.log.push(format!("{} writes {n}", s.name));
                check.count("op_write", 1);
            }
            2 => {
                let bw = b.written;
                let n = drain(&mut cx, &mut a, 2, bw);
                cx.log.push(format!("a drains {n}"));
                check.count("op_drain", 1);
            }
            3 => {
                let aw = a.written;
                let n = drain(&mut cx, &mut b, 1, aw);
                cx.log.push(format!("b drains {n}"));
                check.count("op_drain", 1);
            }
            4 => {
                let cap = *rng.pick(&[Some(1usize), Some(10), Some(5000), Some(CAP)]);
                let s = if rng.bool() { &a } else { &b };
                s.from_relay.set_capacity(cap);
                cx.log.push(format!("back-pressure towards {}: capacity {cap:?}", s.name));
                check.count("op_backpressure", 1);
            }
            _ => {
                let s = if op == 5 { &mut a } else { &mut b };
                if !s.closed && s.written == s.planned {
                    s.to_relay.close();
                    s.closed = true;
                    cx.log.push(format!("{} closes", s.name));
                    check.count("op_close", 1);
                }
            }
        }
        let all = !rng.chance(1, 3);
        if poll_fut!(all) {
            done = true;
            break;
        }
        if budget_hit || cx.violated {
            break;
        }
    }
    // end phase: offer the rest, close, drain until resolved or stalled
    if !done && !budget_hit && !cx.violated {
        let mut idle_rounds = 0;
        for round in 0..20_000u32 {
            let mut progress = 0u64;
            for s in [&mut a, &mut b] {
                progress += write_some(s, *rng.pick(&sizes));
                if s.written == s.planned && !s.closed {
                    s.to_relay.close();
                    s.closed = true;
                    progress += 1;
                }
                s.from_relay.set_capacity(Some(CAP));
            }
            let before = forwarded(&a, &b);
            if poll_fut!(true) {
                done = true;
                break;
            }
            if budget_hit || cx.violated {
                break;
            }
            let (aw, bw) = (a.written, b.written);
            progress += drain(&mut cx, &mut a, 2, bw) + drain(&mut cx, &mut b, 1, aw);
            progress += forwarded(&a, &b) - before;
            if cx.violated {
                break;
            }
            if progress == 0 {
                idle_rounds += 1;
                if idle_rounds >= 2 {
                    break;
                }
            } else {
                idle_rounds = 0;
            }
            if round == 19_999 {
                budget_hit = true;
            }
        }
        cx.log.push("end phase: rest written, both closed, outputs drained".into());
    }
    if budget_hit {
        check.inconclusive("C49 poll/round budget exhausted");
    } else if !done && !cx.violated {
        // everything offered and closed, outputs empty and unbounded, no wake-up registered, timer an hour away
        let fwd = forwarded(&a, &b);
        cx.violation(
            "stalled-with-work-pending",
            format!("future parked (Pending, no wake-up) with all input closed and outputs drained; forwarded {fwd} of {} offered bytes", a.written + b.written),
        );
    }
    let both_dirs = a.received > 0 && b.received > 0;
    check.case(sig.0, done && both_dirs);
    check.count("bytes_forwarded", forwarded(&a, &b));
    check.count(&format!("offered_band_{band}"), 1);
    check.distinct("relay_schedules", Sig::new().str(&cx.desc[cx.desc.find("relay-src").unwrap_or(0)..]).0);
    if done && both_dirs && !cx.violated && check.want_sample() {
        check.sample(json!({"case": cx.desc, "ops": cx.log.iter().take(30).collect::<Vec<_>>(), "delivered_to_a": a.received, "delivered_to_b": b.received}));
    }
    drop((a_client, b_client));
}

fn duration_case(check: &Check, rng: &mut Rng) {
    let d_ms = *rng.pick(&[20u64, 35, 50]);
    let duration = Duration::from_millis(d_ms);
    let max = *rng.pick(&[0u64, 1 << 40]);
    let sa = Sched::random(rng);
    let sb = Sched::random(rng);
    let desc = format!("duration={d_ms}ms max={max} scheds {} {}", sa.describe(), sb.describe());
    let (a_client, relay_src, a2r, r2a) = pipe(Sched::smooth(), sa);
    let (relay_dst, b_client, r2b, b2r) = pipe(sb, Sched::smooth());
    let mut a = Side { name: "a", dir: 1, to_relay: a2r, from_relay: r2a, planned: 5000, written: 0, closed: false, received: 0 };
    let mut b = Side { name: "b", dir: 2, to_relay: b2r, from_relay: r2b, planned: 5000, written: 0, closed: false, received: 0 };
    a.from_relay.set_capacity(Some(CAP));
    b.from_relay.set_capacity(Some(CAP));
    let mut cx = Ctx { check, max, desc, log: vec![], violated: false };
    let t_before = Instant::now(); // before creation: delays can only lengthen the measured time
    let mut fut = copy_future(relay_src, relay_dst, duration, max);
    let early = Delay::new(Duration::from_millis(d_ms * 6 / 10));
    let canary = Delay::new(duration + Duration::from_millis(5)); // created after the future's own timer
    let sig = Sig::new().str(&cx.desc).0;
    let mut ended = false;
    let mut step = |cx: &mut Ctx<'_>, a: &mut Side, b: &mut Side, label: &str| -> bool {
        match run_until_parked(&mut fut, 5_000_000).unwrap_or(None) {
            Some(Ok(())) => {
                cx.log.push(format!("{label}: future -> Ok"));
                judge_end(cx, a, b, End_::Ok, t_before, duration);
                true
            }
            Some(Err(e)) => {
                cx.log.push(format!("{label}: future -> Err({e}) at {:?}", t_before.elapsed()));
                judge_end(cx, a, b, End_::Err(e), t_before, duration);
                true
            }
            None => false,
        }
    };
    // some traffic first
    for _ in 0..rng.range(0, 4) {
        let n = if rng.bool() { write_some(&mut a, rng.range(1, 900)) } else { write_some(&mut b, rng.range(1, 900)) };
        cx.log.push(format!("write {n}"));
        if step(&mut cx, &mut a, &mut b, "traffic") {
            ended = true;
            break;
        }
    }
    // half of the cases: one client finishes writing (EOF in that direction), the other direction stays open and idle
    let half_closed = rng.bool();
    if !ended && half_closed {
        let s = if rng.bool() { &mut a } else { &mut b };
        s.to_relay.close();
        s.closed = true;
        cx.log.push(format!("client {} closes its write side", s.name));
        ended = step(&mut cx, &mut a, &mut b, "after half-close");
        check.count("duration_cases_half_closed", 1);
    }
    if !ended {
        if block_on_timeout(early, Duration::from_secs(5)).is_none() {
            check.inconclusive("C49 early canary watchdog");
            return;
        }
        if !a.closed {
            write_some(&mut a, 10);
        }
        ended = step(&mut cx, &mut a, &mut b, "after 0.6 x duration");
    }
    if !ended {
        if block_on_timeout(canary, Duration::from_secs(5)).is_none() {
            check.inconclusive("C49 canary watchdog");
            return;
        }
        if rng.bool() && !b.closed && !half_closed {
            write_some(&mut b, 10);
        }
        ended = step(&mut cx, &mut a, &mut b, "after canary (duration + 5 ms)");
        if !ended {
            cx.violation(
                "no-error-after-max-duration",
                format!("circuit still open (future Pending) after a later-deadline timer than max_circuit_duration={duration:?} has fired; elapsed {:?}", t_before.elapsed()),
            );
        }
    }
    let (aw, bw) = (a.written, b.written);
    drain(&mut cx, &mut a, 2, bw);
    drain(&mut cx, &mut b, 1, aw);
    check.case(sig, ended);
    check.count("duration_cases", 1);
    drop((a_client, b_client));
}

pub fn run(args: &Args) -> i32 {
    let check = Check::new(
        args,
        "exploration",
        "byte cases: max_circuit_bytes in {0,1,100,1000,10000,20000}, total offered in 7 bands around the limit (<=M, M-1, M, M+1, \
         M+16K, M+16K+1, beyond), split over the two directions, 3-40 PRNG ops (write chunk 1..60000 / drain / back-pressure / \
         close) with PRNG relay-side pipe schedules, then a drain-to-completion phase; duration cases: max_circuit_duration \
         20/35/50 ms with early (0.6x) and late (+5 ms) canary timers. non-trivial = the future resolved and bytes were \
         delivered in both directions (byte cases) / the future ended (duration cases); distinct by (limits, split, schedules, op sequence)",
    );
    let tiny = util::tiny(args);
    let n_bytes = if tiny { 4 } else { args.tier.pick(12_000, 400_000) };
    let n_dur = if tiny { 1 } else { args.tier.pick(240, 6_000) };
    vmon::par_cases(&check, n_bytes + n_dur, args.threads, |i, rng| {
        if i < n_dur { duration_case(&check, rng) } else { byte_case(&check, rng) }
    });
    check.note("exhaustive", json!(false));
    check.note("read_buffer_allowance", json!("2 x 8192 bytes (futures BufReader default capacity, one per direction)"));
    check.finish()
}
