//! C50 part B — history half: a real AutoNAT v1 server in the network simulator.
//!
//! Node 0 runs `autonat::Behaviour` (client side silenced: hour-long boot/retry/refresh delays;
//! `only_global_ips = false`; small `throttle_clients_global_max` / `throttle_clients_peer_max`,
//! `throttle_clients_period` = 1 h so that the whole history lies inside one period). 2-4 `Raw` clients
//! with IP-style source addresses (`board.set_src(i, /ip4/203.0.113.<i>)`, so the server observes
//! `/ip4/203.0.113.<i>/tcp/<port>`) send hand-encoded DialRequests (`vmon::pb`) in PRNG batches of 1-3
//! before the net is stepped: own or foreign peer id, address lists mixing the client's real listen
//! address, addresses whose dial-back stays pending until the harness resolves it (`Route::Manual`),
//! unroutable ones, other hosts' IPs, several IP components, DNS, relay hops, own / foreign `/p2p`.
//! Pending dial-backs are resolved (success / failure) at random later, so dial-backs overlap with new
//! requests of the same and of other clients.
//!
//! Oracle (statement), on the server's `InboundProbeEvent`s and on its transport dial log:
//!  * every address announced in `InboundProbeEvent::Request` and every address handed to
//!    `Transport::dial` satisfies the input-half conditions for the peer named by its trailing `/p2p`
//!    (all IP components == that client's observed IP, no relay hop, last component `/p2p/<client>`):
//!    signatures of part A prefixed with `dialed:` / `announced:`; `dialed-address-without-known-peer`
//!  * at most one dial-back per peer: no `Request` for a peer while an earlier probe of that peer has
//!    not ended (`Response`/`Error` with its probe id)        `second-dial-back-while-one-ongoing`;
//!    at every quiescent point at most one started-and-unfinished transport dial per target peer
//!                                                           `concurrent-transport-dials-to-one-peer`
//!  * throttles: accepted dial-backs (Request events) per peer <= throttle_clients_peer_max and in
//!    total <= throttle_clients_global_max within the period  `throttle-per-peer-exceeded`,
//!                                                           `throttle-global-exceeded`
//!  * the server dials only what it announced for that peer   `dialed-unannounced-address`
//! Not judged: which requests are refused and with which status, `max_peer_addresses`, expiry of the
//! throttle period (would need wall-clock waits of the period's length).
use std::{
    collections::{HashMap, HashSet},
    net::{IpAddr, Ipv4Addr},
    time::Duration,
};

use either::Either;
use libp2p_autonat as autonat;
use libp2p_core::{Multiaddr, multiaddr::Protocol};
use libp2p_identity::PeerId;
use libp2p_swarm::{SwarmEvent, dial_opts::DialOpts};
use vmon::{Args, Check, Rng, Sig, json, pb::Msg};
use vnet::{Net, Outcome, Raw, RawCtl, RawEvent, RawStream, Route};

use crate::util;

type B = Either<autonat::Behaviour, Raw>;
type Ev = Either<autonat::Event, RawEvent>;
const AUTONAT: &str = "/libp2p/autonat/1.0.0";

fn ip_of(i: usize) -> Ipv4Addr {
    Ipv4Addr::new(203, 0, 113, i as u8)
}
fn client_addr(i: usize, port: u16) -> Multiaddr {
    Multiaddr::empty().with(Protocol::Ip4(ip_of(i))).with(Protocol::Tcp(port))
}

fn gen_list(rng: &mut Rng, me: usize, my_id: PeerId, other_id: PeerId, n_clients: usize) -> Vec<Multiaddr> {
    let mut out = vec![];
    let victim = Ipv4Addr::new(198, 51, 100, 77);
    for _ in 0..rng.range(1, 5) {
        let a: Multiaddr = match rng.weighted(&[22, 22, 10, 8, 8, 8, 6, 6, 5, 5]) {
            0 => client_addr(me, 4001),                      // really listening: dial-back succeeds
            1 => client_addr(me, 7001),                      // Manual route: pending until resolved
            2 => client_addr(me, 7002),                      // no route: refused
            3 => Multiaddr::empty().with(Protocol::Ip4(victim)).with(Protocol::Tcp(7001)), // other host; becomes own ip after filtering
            4 => client_addr(me, 4001).with(Protocol::Ip4(victim)).with(Protocol::Tcp(80)),
            5 => client_addr(me, 7001).with(Protocol::P2p(my_id)),
            6 => client_addr(me, 7001).with(Protocol::P2p(other_id)),
            7 => Multiaddr::empty().with(Protocol::Dns4("victim.example".into())).with(Protocol::Tcp(4001)),
            8 => client_addr(1 + (me % n_clients), 4001).with(Protocol::P2p(other_id)).with(Protocol::P2pCircuit).with(Protocol::P2p(my_id)),
            _ => Multiaddr::empty().with(Protocol::Ip4(victim)).with(Protocol::P2p(my_id)).with(Protocol::Tcp(7001)),
        };
        out.push(a);
    }
    out
}

fn dial_request(peer: &PeerId, addrs: &[Multiaddr]) -> Vec<u8> {
    let mut info = Msg::new().bytes(1, peer.to_bytes());
    for a in addrs {
        info = info.bytes(2, a.to_vec());
    }
    vmon::pb::frame(&Msg::new().varint(1, 0).msg(2, &Msg::new().msg(1, &info)).encode())
}

fn trailing_peer(a: &Multiaddr) -> Option<PeerId> {
    match a.iter().last() {
        Some(Protocol::P2p(p)) => Some(p),
        _ => None,
    }
}

pub fn part_b(check: &Check, args: &Args) {
    let tiny = util::tiny(args);
    let cases = if tiny { 2 } else { args.tier.pick(2_000u64, 60_000) };
    let only: Option<u64> = args.extra.get("case").and_then(|s| s.parse().ok());
    vmon::par_cases_timed(check, cases, args.threads, args.tier.pick(25.0, 300.0), |case_idx, rng: &mut Rng| {
        if only.is_some() && only != Some(case_idx) {
            return;
        }
        let n = rng.range(2, 4) as usize;
        let g_max = rng.range(1, 6) as usize;
        let p_max = rng.range(1, 3) as usize;
        let max_addrs = *rng.pick(&[1usize, 2, 16]);
        let mut net: Net<B> = Net::new(rng.next_u64(), rng.chance(1, 4));
        let idle_cfg = |c: libp2p_swarm::Config| c.with_idle_connection_timeout(Duration::from_secs(3600));
        let hour = Duration::from_secs(3600);
        let srv_period = *rng.pick(&[Duration::ZERO, Duration::from_millis(1), Duration::from_secs(90)]);
        net.add_node(
            vnet::keypair(rng.next_u64()),
            |k, _| {
                Either::Left(autonat::Behaviour::new(
                    k.public().to_peer_id(),
                    autonat::Config {
                        boot_delay: hour,
                        retry_interval: hour,
                        refresh_interval: hour,
                        timeout: hour,
                        only_global_ips: false,
                        max_peer_addresses: max_addrs,
                        throttle_clients_global_max: g_max,
                        throttle_clients_peer_max: p_max,
                        throttle_clients_period: hour,
                        // the client-side throttle period is unrelated to how long the server remembers its clients
                        throttle_server_period: srv_period,
                        ..Default::default()
                    },
                ))
            },
            idle_cfg,
        );
        let server_addr: Multiaddr = "/ip4/198.51.100.1/tcp/4001".parse().unwrap();
        net.board.set_src(0, "/ip4/198.51.100.1".parse().unwrap());
        net.swarm(0).listen_on(server_addr.clone()).unwrap();
        let mut ctl: Vec<Option<RawCtl>> = vec![None];
        for i in 1..=n {
            let mut c = None;
            net.add_node(
                vnet::keypair(rng.next_u64()),
                |_, exec| {
                    let (r, rc) = Raw::new(vec![], exec);
                    c = Some(rc);
                    Either::Right(r)
                },
                idle_cfg,
            );
            net.board.set_src(i, Multiaddr::empty().with(Protocol::Ip4(ip_of(i))));
            net.swarm(i).listen_on(client_addr(i, 4001)).unwrap();
            net.board.set_route(&client_addr(i, 7001), Route::Manual);
            ctl.push(c);
        }
        let server = net.peer(0);
        let ids: Vec<PeerId> = (0..=n).map(|i| net.peer(i)).collect();
        let node_of: HashMap<PeerId, usize> = ids.iter().enumerate().map(|(i, p)| (*p, i)).collect();
        let stranger = util::peer(900 + case_idx % 7);
        // rare configuration: the server also knows some clients as AutoNAT *servers* of its own, under an address
        // with a different IP (routable, so a dial to it is visible in the transport log); such stored addresses
        // never went through the dial-back filter and must not be dialed on behalf of a request
        let mut stored_foreign = 0u64;
        for i in 1..=n {
            if rng.chance(1, 3) {
                let foreign: Multiaddr = Multiaddr::empty().with(Protocol::Ip4(Ipv4Addr::new(198, 51, 100, 200 + i as u8))).with(Protocol::Tcp(4001));
                net.board.alias(&foreign, &client_addr(i, 4001));
                if let Either::Left(b) = net.swarm(0).behaviour_mut() {
                    b.add_server(ids[i], Some(foreign));
                }
                stored_foreign += 1;
            }
        }

        // event fold state
        let mut events: Vec<String> = vec![];
        let mut ongoing: HashMap<PeerId, String> = HashMap::new();
        let mut requests_per_peer: HashMap<PeerId, usize> = HashMap::new();
        let mut announced: HashMap<PeerId, HashSet<Multiaddr>> = HashMap::new();
        let mut pending_violations: Vec<(String, String)> = vec![];
        let mut responses_ok = 0u64;
        macro_rules! sink {
            () => {
                &mut |_: &mut Net<B>, i: usize, ev: SwarmEvent<Ev>| {
                    if i != 0 {
                        return;
                    }
                    if let SwarmEvent::Behaviour(Either::Left(autonat::Event::InboundProbe(e))) = ev {
                        match e {
                            autonat::InboundProbeEvent::Request { probe_id, peer, addresses } => {
                                events.push(format!("Request {{ {probe_id:?}, peer: node {:?}, addresses: {:?} }}", node_of.get(&peer), addresses.iter().map(|a| a.to_string()).collect::<Vec<_>>()));
                                if let Some(prev) = ongoing.get(&peer) {
                                    pending_violations.push(("second-dial-back-while-one-ongoing".into(), format!("Request {probe_id:?} for node {:?} while probe {prev} of the same peer has not ended", node_of.get(&peer))));
                                }
                                ongoing.insert(peer, format!("{probe_id:?}"));
                                *requests_per_peer.entry(peer).or_insert(0) += 1;
                                let total: usize = requests_per_peer.values().sum();
                                if requests_per_peer[&peer] > p_max {
                                    pending_violations.push(("throttle-per-peer-exceeded".into(), format!("{} dial-backs accepted for node {:?} within the period, throttle_clients_peer_max={p_max}", requests_per_peer[&peer], node_of.get(&peer))));
                                }
                                if total > g_max {
                                    pending_violations.push(("throttle-global-exceeded".into(), format!("{total} dial-backs accepted within the period, throttle_clients_global_max={g_max}")));
                                }
                                let obs = node_of.get(&peer).map(|i| IpAddr::V4(ip_of(*i)));
                                for a in &addresses {
                                    if let Some((s, what)) = crate::c50::judge(a, &peer, obs) {
                                        pending_violations.push((format!("announced:{s}"), what));
                                    }
                                }
                                announced.entry(peer).or_default().extend(addresses);
                            }
                            autonat::InboundProbeEvent::Response { probe_id, peer, address } => {
                                events.push(format!("Response {{ {probe_id:?}, node {:?}, {address} }}", node_of.get(&peer)));
                                responses_ok += 1;
                                if ongoing.get(&peer) == Some(&format!("{probe_id:?}")) {
                                    ongoing.remove(&peer);
                                }
                            }
                            autonat::InboundProbeEvent::Error { probe_id, peer, error } => {
                                events.push(format!("Error {{ {probe_id:?}, node {:?}, {} }}", node_of.get(&peer), format!("{error:?}").chars().take(50).collect::<String>()));
                                if ongoing.get(&peer) == Some(&format!("{probe_id:?}")) {
                                    ongoing.remove(&peer);
                                }
                            }
                        }
                    }
                }
            };
        }
        for i in 1..=n {
            for _ in 0..rng.range(1, 2) {
                let _ = net.swarm(i).dial(DialOpts::unknown_peer_id().address(server_addr.clone()).build());
                net.touch(i);
            }
        }
        if !net.run(2_000_000, sink!()) {
            check.inconclusive("C50b setup not quiescent");
            return;
        }
        let mut history: Vec<String> = vec![];
        let mut sig = Sig::new().u64(g_max as u64).u64(p_max as u64);
        let mut tag = 0u64;
        let mut streams: Vec<(usize, RawStream)> = vec![];
        let mut statuses: HashMap<u64, u64> = HashMap::new();
        let mut reported: HashSet<String> = HashSet::new();
        let mut dials_checked = 0usize;
        let mut max_concurrent_pending = 0usize;
        let mut own_dials: HashSet<usize> = HashSet::new();
        let mut unrelated_dials = 0u64;
        let strip = |a: &Multiaddr| -> Multiaddr { a.iter().filter(|c| !matches!(c, Protocol::P2p(_))).collect() };
        let batches = rng.range(4, 16);
        for _ in 0..batches {
            // ---- a batch of requests, opened and written without letting the server answer in between
            let k = rng.range(1, 3);
            let mut batch: Vec<(usize, u64, Vec<u8>)> = vec![];
            for _ in 0..k {
                let me = if rng.chance(1, 2) { 1 } else { 1 + rng.usize(n) };
                let claim = if rng.chance(1, 10) { ids[1 + (me % n)] } else { ids[me] };
                let other = if rng.bool() { stranger } else { ids[1 + (me % n)] };
                let list = gen_list(rng, me, ids[me], other, n);
                tag += 1;
                ctl[me].as_ref().unwrap().open(server, None, AUTONAT, tag);
                net.touch(me);
                history.push(format!("node {me} requests dial-back (claims to be node {:?}) for {:?}", node_of.get(&claim), list.iter().map(|a| a.to_string()).collect::<Vec<_>>()));
                sig.push_u64(me as u64 + 16 * list.len() as u64);
                batch.push((me, tag, dial_request(&claim, &list)));
            }
            if !net.run(2_000_000, sink!()) {
                check.inconclusive("C50b not quiescent while opening streams");
                return;
            }
            for (me, t, bytes) in batch {
                if let Some(s) = ctl[me].as_ref().unwrap().by_tag(t) {
                    s.write(bytes);
                    streams.push((me, s));
                    net.touch(me);
                }
            }
            if !net.run(2_000_000, sink!()) {
                check.inconclusive("C50b not quiescent after requests");
                return;
            }
            // ---- sometimes the application on the server opens an unrelated connection to a client whose dial-back is
            //      still pending (its transport dials are the harness's own and are not judged as dial-backs)
            if rng.chance(1, 4)
                && let Some(p) = ongoing.keys().next().copied()
                && let Some(i) = node_of.get(&p).copied()
                && i >= 1
            {
                let before = net.board.dial_log().len();
                // an address of the client that no dial-back request ever lists (requests use ports 4001 and 7001)
                let own_addr = client_addr(i, 4999);
                net.board.alias(&own_addr, &client_addr(i, 4001));
                let _ = net.swarm(0).dial(DialOpts::peer_id(p).addresses(vec![own_addr.clone()]).condition(libp2p_swarm::dial_opts::PeerCondition::Always).build());
                net.touch(0);
                history.push(format!("server application dials node {i} directly while a dial-back to it is pending"));
                if !net.run(2_000_000, sink!()) {
                    check.inconclusive("C50b not quiescent after the application's own dial");
                    return;
                }
                let after = net.board.dial_log();
                for (idx, d) in after.iter().enumerate().skip(before) {
                    if d.node == 0 && strip(&d.addr) == own_addr {
                        own_dials.insert(idx);
                    }
                }
                unrelated_dials += 1;
            }
            // ---- resolve some of the pending dial-backs
            let pend = net.board.pending_manual();
            max_concurrent_pending = max_concurrent_pending.max(pend.len());
            for d in pend {
                match rng.weighted(&[40, 30, 30]) {
                    0 => {}
                    1 => {
                        history.push(format!("pending dial #{d} fails"));
                        net.board.resolve(d, Outcome::Fail);
                    }
                    _ => {
                        let target = net.board.dial_log()[d].addr.clone();
                        let to = trailing_peer(&target).and_then(|p| node_of.get(&p).copied()).unwrap_or(1);
                        history.push(format!("pending dial #{d} connects"));
                        net.board.resolve(d, Outcome::ConnectTo(client_addr(to, 4001)));
                    }
                }
            }
            if !net.run(2_000_000, sink!()) {
                check.inconclusive("C50b not quiescent after resolving dials");
                return;
            }
            // ---- quiescent point: judge the dial log
            let log = net.board.dial_log();
            let mut in_flight: HashMap<PeerId, usize> = HashMap::new();
            for (idx, d) in log.iter().enumerate().filter(|(i, d)| d.node == 0 && !own_dials.contains(i)) {
                let Some(p) = trailing_peer(&d.addr) else {
                    if idx >= dials_checked {
                        pending_violations.push(("dialed-address-without-known-peer".into(), format!("server dialed {}", d.addr)));
                    }
                    continue;
                };
                if idx >= dials_checked {
                    match node_of.get(&p) {
                        Some(i) if *i >= 1 => {
                            if let Some((s, what)) = crate::c50::judge(&d.addr, &p, Some(IpAddr::V4(ip_of(*i)))) {
                                pending_violations.push((format!("dialed:{s}"), what));
                            }
                            if !announced.get(&p).map(|s| s.contains(&d.addr)).unwrap_or(false) {
                                pending_violations.push(("dialed-unannounced-address".into(), format!("server dialed {} which no Request event announced for that peer", d.addr)));
                            }
                        }
                        _ => pending_violations.push(("dialed-address-without-known-peer".into(), format!("server dialed {}", d.addr))),
                    }
                }
                if d.started && d.done.is_none() && !d.dropped {
                    *in_flight.entry(p).or_insert(0) += 1;
                }
            }
            dials_checked = log.len();
            if let Some((p, c)) = in_flight.iter().find(|(_, c)| **c > 1) {
                pending_violations.push(("concurrent-transport-dials-to-one-peer".into(), format!("{c} transport dials to node {:?} in flight at a quiescent point", node_of.get(p))));
            }
            for (me, s) in &streams {
                for f in s.take_frames() {
                    let st = Msg::decode(&f).and_then(|m| m.all_msgs(3).first().and_then(|r| r.get_varint(1))).unwrap_or(9999);
                    *statuses.entry(st).or_insert(0) += 1;
                    history.push(format!("  node {me} got DialResponse status {st}"));
                }
            }
            for (s, what) in std::mem::take(&mut pending_violations) {
                if reported.insert(s.clone()) {
                    check.violation(
                        s,
                        what,
                        json!({"part": "B", "case": case_idx, "throttle_clients_global_max": g_max, "throttle_clients_peer_max": p_max, "max_peer_addresses": max_addrs,
                               "history": history, "server_events": events,
                               "server_dials": log.iter().filter(|d| d.node == 0).map(|d| format!("{} started={} done={:?} dropped={}", d.addr, d.started, d.done, d.dropped)).collect::<Vec<_>>()}),
                    );
                }
            }
        }
        let accepted: usize = requests_per_peer.values().sum();
        let refused: u64 = statuses.iter().filter(|(k, _)| **k != 0).map(|(_, v)| *v).sum();
        let server_dials = net.board.dial_log().iter().filter(|d| d.node == 0).count() as u64;
        check.case(sig.u64(net.trace.0).0, accepted > 0 && refused > 0 && server_dials > 0);
        check.distinct("B_distinct_interleavings", net.trace.0);
        check.count("B_histories", 1);
        check.count("B_dial_requests_sent", tag);
        check.count("B_dial_backs_accepted", accepted as u64);
        check.count("B_requests_refused", refused);
        check.count("B_dial_backs_succeeded", responses_ok);
        check.count("B_server_transport_dials", server_dials);
        check.count("B_unrelated_application_dials_during_a_dial_back", unrelated_dials);
        check.count("B_clients_also_stored_as_server_with_foreign_ip", stored_foreign);
        check.count("B_histories_with_overlapping_pending_dial_backs", (max_concurrent_pending > 1) as u64);
        for (k, v) in &statuses {
            check.count(&format!("B_response_status_{k}"), *v);
        }
        if check.counter("B_samples") < 2 && check.want_sample() && accepted > 1 && refused > 1 && reported.is_empty() {
            check.count("B_samples", 1);
            check.sample(json!({"part": "B", "throttle_global": g_max, "throttle_peer": p_max, "history": history.iter().take(24).collect::<Vec<_>>(), "server_events": events.iter().take(12).collect::<Vec<_>>()}));
        }
    });
}
