//! C50 — AutoNAT v1 servers dial back only the requester's observed IP.
//!
//! Part A (this file, implemented): the *input half*. Real code: the private
//! `AsServer::filter_valid_addrs(peer, demanded, observed)` — the only place where the address list of
//! `ToSwarm::Dial` for a dial-back is produced — through the cfg(libp2p_verif) forwarding facade
//! `libp2p_autonat::v1::verif::filter_valid_addrs`.
//! Oracle (from the statement, component-wise on the output, nothing of the filter re-implemented):
//! every address the server would dial
//!   (a) has every `/ip4` / `/ip6` component equal to the IP observed for the requester
//!       `ip-component-not-observed/first-ip-component`, `.../later-ip-component`
//!   (b) contains no `/p2p-circuit`                                        `relay-hop-in-output`
//!   (c) ends with `/p2p/<requester>`  `last-component-not-requester-p2p/{own-p2p-not-last,foreign-p2p-last,no-p2p,other}`
//!   (d) contains at least one IP component (an address that is all-DNS would let the name decide
//!       where the dial goes)                                              `no-ip-component`
//!   and nothing is dialed when no IP was observed at all                  `output-without-observed-ip`.
//! Workload: (1) bounded-exhaustive — every component sequence of length 1..=L over a 10-letter
//! alphabet {observed ip, other ip4, ip6, tcp, udp, dns4, p2p-circuit, p2p/requester, p2p/other, ws}
//! as a single demanded address, against 4 observed addresses (ip4, ip6, ip4 + /p2p, no-IP dns);
//! (2) PRNG lists of 1..8 addresses with 1..3 IP components, DNS, relay and own/foreign `/p2p` in the
//! middle or at the end, duplicates included.
//! Not judged: which demanded addresses are dropped, order, de-duplication, DNS components that
//! accompany an IP component (counted as `outputs_with_dns_component`).
//!
//! Part B (history half: at most one dial-back per peer, per-peer and global throttles, judged on the
//! events and the transport dial log of a real server inside the network simulator) lives in `c50b.rs`
//! and shares this `Check`: `./check C50` runs both halves and writes one evidence file.
use std::{net::IpAddr, sync::OnceLock};

use libp2p_autonat::v1::verif::filter_valid_addrs;
use libp2p_core::{Multiaddr, multiaddr::Protocol};
use libp2p_identity::PeerId;
use vmon::{Args, Check, Rng, Sig, catch, json};

use crate::util;

fn ids() -> &'static (PeerId, PeerId) {
    static P: OnceLock<(PeerId, PeerId)> = OnceLock::new();
    P.get_or_init(|| (util::peer(20), util::peer(21)))
}

fn observed_ip(observed: &Multiaddr) -> Option<IpAddr> {
    // reference reading of "the IP it observed": the IP component of the observed address
    // (observed addresses used here have at most one)
    observed.iter().find_map(|p| match p {
        Protocol::Ip4(a) => Some(IpAddr::V4(a)),
        Protocol::Ip6(a) => Some(IpAddr::V6(a)),
        _ => None,
    })
}

/// Judge one output address; returns (signature, text) of the first broken clause.
pub(crate) fn judge(out: &Multiaddr, requester: &PeerId, obs: Option<IpAddr>) -> Option<(String, String)> {
    let comps: Vec<Protocol<'_>> = out.iter().collect();
    let Some(obs) = obs else {
        return Some(("output-without-observed-ip".into(), format!("{out} would be dialed although no IP was observed for the requester")));
    };
    let mut nip = 0;
    for c in &comps {
        let ip = match c {
            Protocol::Ip4(a) => Some(IpAddr::V4(*a)),
            Protocol::Ip6(a) => Some(IpAddr::V6(*a)),
            _ => None,
        };
        if let Some(ip) = ip {
            nip += 1;
            if ip != obs {
                let which = if nip == 1 { "first-ip-component" } else { "later-ip-component" };
                return Some((format!("ip-component-not-observed/{which}"), format!("{out}: IP component #{nip} is {ip}, observed IP is {obs}")));
            }
        }
    }
    if comps.iter().any(|c| matches!(c, Protocol::P2pCircuit)) {
        return Some(("relay-hop-in-output".into(), format!("{out} contains /p2p-circuit")));
    }
    match comps.last() {
        Some(Protocol::P2p(p)) if p == requester => {}
        last => {
            let class = if matches!(last, Some(Protocol::P2p(_))) {
                "foreign-p2p-last"
            } else if comps.iter().any(|c| matches!(c, Protocol::P2p(p) if p == requester)) {
                "own-p2p-not-last"
            } else if !comps.iter().any(|c| matches!(c, Protocol::P2p(_))) {
                "no-p2p"
            } else {
                "other"
            };
            return Some((format!("last-component-not-requester-p2p/{class}"), format!("{out} does not end with /p2p/{requester}")));
        }
    }
    if nip == 0 {
        return Some(("no-ip-component".into(), format!("{out} has no IP component at all")));
    }
    None
}

fn one_call(check: &Check, demanded: Vec<Multiaddr>, observed: &Multiaddr, mode: &str) {
    let (requester, _) = *ids();
    let obs = observed_ip(observed);
    let input: Vec<String> = demanded.iter().map(|a| a.to_string()).collect();
    let mut sig = Sig::new().bytes(observed.as_ref());
    for a in &demanded {
        sig.push(a.as_ref());
        sig.push(&[0xff]);
        let n = a.iter().filter(|p| matches!(p, Protocol::Ip4(_) | Protocol::Ip6(_))).count();
        check.count(&format!("demanded_with_{}_ip_components", n.min(3)), 1);
    }
    let out = match catch(|| filter_valid_addrs(requester, demanded, observed)) {
        Ok(o) => o,
        Err(p) => {
            check.violation(format!("panic@{}", p.site()), format!("filter_valid_addrs panicked: {}", p.msg), json!({"requester": requester.to_string(), "observed": observed.to_string(), "demanded": input}));
            check.case(sig.0, false);
            return;
        }
    };
    for o in &out {
        if o.iter().any(|p| matches!(p, Protocol::Dns(_) | Protocol::Dns4(_) | Protocol::Dns6(_) | Protocol::Dnsaddr(_))) {
            check.count("outputs_with_dns_component", 1);
        }
        if let Some((s, what)) = judge(o, &requester, obs) {
            check.violation(
                s,
                what,
                json!({"requester": requester.to_string(), "observed": observed.to_string(), "demanded": input, "would_dial": out.iter().map(|a| a.to_string()).collect::<Vec<_>>()}),
            );
        }
    }
    check.count("addresses_demanded", input.len() as u64);
    check.count("addresses_to_dial", out.len() as u64);
    check.count(&format!("calls_{mode}"), 1);
    check.case(sig.0, !out.is_empty());
    if !out.is_empty() && input.len() > 1 && check.want_sample() {
        check.sample(json!({"observed": observed.to_string(), "demanded": input, "would_dial": out.iter().map(|a| a.to_string()).collect::<Vec<_>>()}));
    }
}

fn observed_addrs() -> Vec<Multiaddr> {
    let (req, _) = *ids();
    vec![
        "/ip4/203.0.113.7/tcp/4001".parse().unwrap(),
        "/ip6/2001:db8::7/udp/4001/quic-v1".parse().unwrap(),
        format!("/ip4/203.0.113.7/tcp/4001/p2p/{req}").parse().unwrap(),
        "/dns4/client.example/tcp/4001".parse().unwrap(),
    ]
}

fn alphabet() -> Vec<Protocol<'static>> {
    let (req, other) = *ids();
    vec![
        Protocol::Ip4("203.0.113.7".parse().unwrap()), // == observed ip4
        Protocol::Ip4("198.51.100.99".parse().unwrap()),
        Protocol::Ip6("2001:db8::bad".parse().unwrap()),
        Protocol::Tcp(4001),
        Protocol::Udp(4001),
        Protocol::Dns4("victim.example".into()),
        Protocol::P2pCircuit,
        Protocol::P2p(req),
        Protocol::P2p(other),
        Protocol::Ws("/".into()),
    ]
}

/// A few realistic shapes first, so that the witness kept per signature is a readable one.
fn part_a_fixed(check: &Check) {
    let (req, other) = *ids();
    let observed: Multiaddr = "/ip4/203.0.113.7/tcp/4001".parse().unwrap();
    for d in [
        "/ip4/198.51.100.99/tcp/4001/ip4/10.0.0.1/tcp/80".to_string(),
        format!("/ip4/198.51.100.99/p2p/{req}/tcp/4001"),
        format!("/ip4/198.51.100.99/tcp/4001/p2p/{req}"),
        format!("/ip4/198.51.100.99/tcp/4001/p2p/{other}"),
        format!("/ip4/198.51.100.99/tcp/4001/p2p/{other}/p2p-circuit/p2p/{req}"),
        "/dns4/victim.example/tcp/4001".to_string(),
    ] {
        one_call(check, vec![d.parse().unwrap()], &observed, "fixed");
    }
}

fn part_a_exhaustive(check: &Check, max_len: usize) {
    let alpha = alphabet();
    let observed = observed_addrs();
    let k = alpha.len();
    for len in 1..=max_len {
        let total = k.pow(len as u32);
        for code in 0..total {
            let mut c = code;
            let mut a = Multiaddr::empty();
            for _ in 0..len {
                a.push(alpha[c % k].clone());
                c /= k;
            }
            for o in &observed {
                one_call(check, vec![a.clone()], o, "exhaustive");
            }
        }
    }
}

fn gen_addr(rng: &mut Rng) -> Multiaddr {
    let (req, other) = *ids();
    let ips = ["203.0.113.7", "198.51.100.99", "10.0.0.1", "127.0.0.1", "2001:db8::7", "2001:db8::bad", "::1"];
    let ip = |rng: &mut Rng| -> Protocol<'static> {
        match rng.pick(&ips).parse::<IpAddr>().unwrap() {
            IpAddr::V4(a) => Protocol::Ip4(a),
            IpAddr::V6(a) => Protocol::Ip6(a),
        }
    };
    let transport = |rng: &mut Rng, a: &mut Multiaddr| match rng.below(4) {
        0 => a.push(Protocol::Tcp(rng.range(1, 65535) as u16)),
        1 => {
            a.push(Protocol::Udp(rng.range(1, 65535) as u16));
            a.push(Protocol::QuicV1);
        }
        2 => {
            a.push(Protocol::Tcp(443));
            a.push(Protocol::Tls);
            a.push(Protocol::Ws("/".into()));
        }
        _ => a.push(Protocol::Tcp(4001)),
    };
    let mut a = Multiaddr::empty();
    // head: ip (mostly), dns, or nothing
    match rng.weighted(&[70, 15, 5, 10]) {
        0 => a.push(ip(rng)),
        1 => a.push(match rng.below(3) {
            0 => Protocol::Dns("victim.example".into()),
            1 => Protocol::Dns4("victim.example".into()),
            _ => Protocol::Dnsaddr("boot.example".into()),
        }),
        2 => {}
        _ => {
            a.push(Protocol::Dns4("victim.example".into()));
            a.push(ip(rng));
        }
    }
    transport(rng, &mut a);
    // middle: optional /p2p, optional relay hop, optional further ip + transport (1..3 IP components)
    let extra = rng.weighted(&[45, 15, 15, 10, 15]);
    match extra {
        0 => {}
        1 => {
            a.push(ip(rng));
            transport(rng, &mut a);
        }
        2 => {
            a.push(Protocol::P2p(if rng.bool() { req } else { other }));
            a.push(Protocol::P2pCircuit);
        }
        3 => {
            a.push(ip(rng));
            transport(rng, &mut a);
            a.push(ip(rng));
            transport(rng, &mut a);
        }
        _ => {
            a.push(Protocol::P2p(if rng.chance(2, 3) { req } else { other }));
            if rng.bool() {
                a.push(ip(rng));
            }
            transport(rng, &mut a);
        }
    }
    // tail
    match rng.weighted(&[40, 35, 15, 10]) {
        0 => {}
        1 => a.push(Protocol::P2p(req)),
        2 => a.push(Protocol::P2p(other)),
        _ => a.push(Protocol::P2pCircuit),
    }
    a
}

fn part_a_random(check: &Check, args: &Args, n: u64) {
    let observed = observed_addrs();
    vmon::par_cases(check, n, args.threads, |_, rng| {
        let k = rng.range(1, 8) as usize;
        let mut list: Vec<Multiaddr> = (0..k).map(|_| gen_addr(rng)).collect();
        if k > 1 && rng.chance(1, 4) {
            let d = list[rng.usize(k)].clone();
            list.push(d);
        }
        let o = if rng.chance(1, 3) {
            // fresh observed address with a random IP
            let mut o = Multiaddr::empty();
            o.push(match rng.below(2) {
                0 => Protocol::Ip4(std::net::Ipv4Addr::from(rng.next_u32())),
                _ => Protocol::Ip6(std::net::Ipv6Addr::from(((rng.next_u64() as u128) << 64) | rng.next_u64() as u128)),
            });
            o.push(Protocol::Tcp(rng.range(1, 65535) as u16));
            o
        } else {
            rng.pick(&observed).clone()
        };
        one_call(check, list, &o, "random");
    });
}

/// Part B: dial-back concurrency and throttling on a real server in the network simulator.
fn part_b(check: &Check, args: &Args) {
    crate::c50b::part_b(check, args);
}

pub fn run(args: &Args) -> i32 {
    let check = Check::new(
        args,
        "exploration",
        "part A: every component sequence of length 1..=L over a 10-letter alphabet as a single demanded address x 4 observed \
         addresses (exhaustive), plus PRNG lists of 1..8 demanded addresses (1-3 IP components, dns, relay hop, own/foreign /p2p in \
         middle or end, duplicates) x observed address; non-trivial = the filter lets at least one address through; distinct by \
         (observed, demanded list) bytes. part B: PRNG histories of a real autonat v1 server (throttle global 1-6, per peer 1-3) with \
         2-4 raw clients sending 4-16 batches of 1-3 concurrent hand-encoded DialRequests, dial-backs succeeding, refused or held \
         pending and resolved later; non-trivial = a dial-back was accepted, a request was refused and the server dialed; distinct by \
         (request sequence, interleaving)",
    );
    let tiny = util::tiny(args);
    let max_len = if tiny { 2 } else { args.tier.pick(4, 5) };
    part_b(&check, args); // first: it keeps at most 2 of the 5 evidence samples
    part_a_fixed(&check);
    part_a_exhaustive(&check, max_len);
    part_a_random(&check, args, if tiny { 20 } else { args.tier.pick(100_000, 2_000_000) });
    check.note("exhaustive", json!(format!("single demanded address: all sequences up to length {max_len} over the alphabet; lists: PRNG")));
    check.note("parts", json!({"A_input_half": "filter_valid_addrs facade (c50.rs)", "B_history_half": "real server in vnet, raw clients (c50b.rs)"}));
    check.finish()
}
