mod c48;
mod c49;
mod c50;
mod c50b;
mod c51;
mod util;

fn main() {
    vmon::run_main(&[("C48", c48::run), ("C49", c49::run), ("C50", c50::run), ("C51", c51::run)]);
}
