mod c48;
mod c51;
mod util;

fn main() {
    vmon::run_main(&[("C48", c48::run), ("C51", c51::run)]);
}
