//! Helpers shared by the vc-proto checks.
use libp2p_identity::{Keypair, PeerId};
use vmon::{Args, Rng};

/// Deterministic ed25519 keypair from a small index (no OS randomness; Miri friendly).
pub fn keypair(ix: u64) -> Keypair {
    let mut rng = Rng::new(0xC0FFEE ^ ix.wrapping_mul(0x9E3779B97F4A7C15));
    let mut b = [0u8; 32];
    rng.fill(&mut b);
    Keypair::ed25519_from_bytes(b).expect("32 bytes are a valid ed25519 secret")
}

pub fn peer(ix: u64) -> PeerId {
    keypair(ix).public().to_peer_id()
}

/// `--budget tiny` (used by the Miri pass) shrinks every budget to a handful of cases.
pub fn tiny(args: &Args) -> bool {
    args.extra.get("budget").map(|s| s == "tiny").unwrap_or(false)
}
