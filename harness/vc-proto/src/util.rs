//! Helpers shared by the vc-proto checks.
use libp2p_identity::{Keypair, PeerId};
use vmon::{Args, Rng};

/// Deterministic ed25519 keypair from a small index (no OS randomness; Miri friendly).
pub fn keypair(ix: u64) -> Keypair {
    let mut rng = Rng::new(0xC0FFEE ^ ix.wrapping_mul(0x9E3779B97F4A7C15));
    let mut b = [0u8; 32];
    rng.fill(&mut b);
    Keypair::ed25519_from_bytes(b).expect("32 bytes are a valid ed25519 secret")
}

pub fn peer(ix: u64) -> PeerId {
    keypair(ix).public().to_peer_id()
}

/// `--budget tiny` (used by the Miri pass) shrinks every budget to a handful of cases.
pub fn tiny(args: &Args) -> bool {
    args.extra.get("budget").map(|s| s == "tiny").unwrap_or(false)
}

// ---------------------------------------------------------------------------------------------
// Light-weight polling (no condvar: `vmon::exec::Flag` notifies a condvar on every wake, which is a
// futex syscall per spurious-Pending self-wake; the byte-level workloads here wake millions of times)
// ---------------------------------------------------------------------------------------------
use std::{
    future::Future,
    pin::Pin,
    sync::{
        Arc,
        atomic::{AtomicBool, Ordering},
    },
    task::{Context, Poll, Wake, Waker},
};

pub struct LightFlag(AtomicBool);
impl Wake for LightFlag {
    fn wake(self: Arc<Self>) {
        self.0.store(true, Ordering::SeqCst);
    }
    fn wake_by_ref(self: &Arc<Self>) {
        self.0.store(true, Ordering::SeqCst);
    }
}

/// Poll `f` until it resolves (`Some`) or returns `Pending` without having woken its waker (`None`:
/// parked on something external). `Err(())` = poll budget exhausted (caller: inconclusive).
pub fn run_until_parked<F: Future + Unpin>(f: &mut F, max_polls: usize) -> Result<Option<F::Output>, ()> {
    let flag = Arc::new(LightFlag(AtomicBool::new(false)));
    let w = Waker::from(flag.clone());
    let mut cx = Context::from_waker(&w);
    for _ in 0..max_polls {
        flag.0.store(false, Ordering::SeqCst);
        if let Poll::Ready(v) = Pin::new(&mut *f).poll(&mut cx) {
            return Ok(Some(v));
        }
        if !flag.0.load(Ordering::SeqCst) {
            return Ok(None);
        }
    }
    Err(())
}
