//! C54 — peer store `MemoryStore`: permanent addresses, capacities, Added/Removed events.
//!
//! Real code: `libp2p_peer_store::Behaviour<MemoryStore<u32>>` driven directly (public API of the
//! store through `store_mut()`, generated `FromSwarm` events through `on_swarm_event`, events drained
//! through `NetworkBehaviour::poll`).
//!
//! Oracle (written from the statement, no LRU model):
//! * after every operation the store contents are observed (`record_iter` + `addresses_of_peer`) and
//!   the drained events are folded over the contents observed *before* the operation:
//!   `PeerAddressAdded(p,a)` must hit an absent pair, `PeerAddressRemoved(p,a)` a present pair; the
//!   folded contents must equal the observed contents, except for pairs that disappeared silently and
//!   are explained by a capacity overflow of that very step (per-peer: folded size − record_capacity;
//!   store: folded peer count − peer_capacity). => events are emitted *exactly* for additions and
//!   removals.
//! * capacities: every peer ≤ record_capacity addresses, store ≤ peer_capacity peers, at all times.
//! * permanent addresses: a pair that was added through `add_address` (and has been present since) is
//!   never the subject of a `PeerAddressRemoved` emitted while handling a swarm event
//!   (dial failure / failed addresses of an established connection).
//! * explicit `add_address` of an absent pair stores it and reports `true` + one Added(permanent)
//!   event; explicit `remove_address` of a present pair removes it and reports `true` + one Removed.
//!
//! Not judged (statement silent): which address / peer a capacity eviction picks (LRU order), that
//! evictions emit no event, whether automatic removal *happens* for a given failure kind (only that
//! what happens is reported and spares permanent addresses; the run is inconclusive if automatic
//! removal is never observed at all), custom-data API results.
use std::{
    collections::{BTreeMap, BTreeSet},
    io,
    num::NonZeroUsize,
    task::{Context, Poll},
};

use libp2p_core::{
    ConnectedPoint, Endpoint, Multiaddr,
    transport::{ListenerId, PortUse, TransportError},
};
use libp2p_identity::PeerId;
use libp2p_peer_store::{
    Behaviour,
    memory_store::{Config, Event, MemoryStore},
};
use libp2p_swarm::{
    ConnectionId, DialError, FromSwarm, NetworkBehaviour, ToSwarm,
    behaviour::{ConnectionEstablished, DialFailure, ExternalAddrConfirmed, NewExternalAddrOfPeer, NewListenAddr},
    dial_opts::PeerCondition,
};
use vmon::{Args, Check, Rng, Sig, Value, catch, json};

use crate::util;

type B = Behaviour<MemoryStore<u32>>;

#[derive(Clone, Debug)]
enum Op {
    Add(usize, usize),
    Remove(usize, usize),
    Report(usize, usize),
    Established { p: usize, dialer: bool, remote: usize, failed: Vec<usize> },
    FailTransport { p: Option<usize>, addrs: Vec<usize> },
    FailWrongPeer { p: usize, obtained: usize, a: usize },
    /// 0 LocalPeerId, 1 NoAddresses, 2 Aborted, 3 DialPeerConditionFalse
    FailOther { p: usize, kind: u8, a: usize },
    InsertData(usize),
    TakeData(usize),
    /// swarm events that carry addresses but are unrelated to peers' addresses
    Unrelated(u8, usize),
}

impl Op {
    fn is_failure_event(&self) -> bool {
        matches!(self, Op::Established { .. } | Op::FailTransport { .. } | Op::FailWrongPeer { .. } | Op::FailOther { .. })
    }
    fn is_swarm_event(&self) -> bool {
        !matches!(self, Op::Add(..) | Op::Remove(..) | Op::InsertData(_) | Op::TakeData(_))
    }
    fn kind(&self) -> &'static str {
        match self {
            Op::Add(..) => "add",
            Op::Remove(..) => "remove",
            Op::Report(..) => "report",
            Op::Established { .. } => "established",
            Op::FailTransport { .. } => "fail_transport",
            Op::FailWrongPeer { .. } => "fail_wrong_peer",
            Op::FailOther { .. } => "fail_other",
            Op::InsertData(_) => "insert_data",
            Op::TakeData(_) => "take_data",
            Op::Unrelated(..) => "unrelated",
        }
    }
    fn to_json(&self) -> Value {
        json!(format!("{self:?}"))
    }
}

struct World {
    peers: Vec<PeerId>,
    addrs: Vec<Multiaddr>,
    record_cap: usize,
    peer_cap: usize,
    remove_on_err: bool,
}

fn gen_world(rng: &mut Rng) -> World {
    let np = 2 + rng.usize(5);
    let na = 2 + rng.usize(7);
    let peers = (0..np).map(|_| util::peer_id_from(rng)).collect();
    let addrs = (0..na)
        .map(|i| {
            let s = match i % 4 {
                0 => format!("/ip4/10.0.0.{}/tcp/{}", i + 1, 4000 + i),
                1 => format!("/ip6/2001:db8::{:x}/udp/{}/quic-v1", i + 1, 4000 + i),
                2 => format!("/dns4/node{}.example/tcp/443/wss", i),
                _ => format!("/memory/{}", 1000 + i),
            };
            s.parse().expect("alphabet parses")
        })
        .collect();
    World {
        peers,
        addrs,
        record_cap: *rng.pick(&[1usize, 1, 2, 2, 3, 4, 8]),
        peer_cap: *rng.pick(&[1usize, 2, 2, 3, 4, 6, 1000]),
        remove_on_err: rng.chance(5, 6),
    }
}

fn gen_op(rng: &mut Rng, w: &World) -> Op {
    let p = rng.usize(w.peers.len());
    let a = rng.usize(w.addrs.len());
    let some = |rng: &mut Rng, max: usize| -> Vec<usize> { (0..rng.usize(max + 1)).map(|_| rng.usize(w.addrs.len())).collect() };
    match rng.weighted(&[22, 8, 16, 10, 16, 5, 4, 3, 3, 3]) {
        0 => Op::Add(p, a),
        1 => Op::Remove(p, a),
        2 => Op::Report(p, a),
        3 => Op::Established { p, dialer: rng.chance(3, 4), remote: a, failed: some(rng, 3) },
        4 => Op::FailTransport { p: if rng.chance(9, 10) { Some(p) } else { None }, addrs: some(rng, 4) },
        5 => Op::FailWrongPeer { p, obtained: rng.usize(w.peers.len()), a },
        6 => Op::FailOther { p, kind: rng.usize(4) as u8, a },
        7 => Op::InsertData(p),
        8 => Op::TakeData(p),
        _ => Op::Unrelated(rng.usize(3) as u8, a),
    }
}

type Contents = BTreeMap<usize, BTreeSet<usize>>;

/// Observe the store: peer index -> set of address indices (peers with a record but no address map
/// to the empty set). Returns Err(description) on observations that are themselves inconsistent.
fn observe(b: &B, w: &World) -> Result<Contents, (String, String)> {
    let mut out = Contents::new();
    for (pid, rec) in b.store().record_iter() {
        let Some(pi) = w.peers.iter().position(|x| x == pid) else {
            return Err(("unknown-peer-in-store".into(), format!("store holds peer {pid} that was never used")));
        };
        let mut set = BTreeSet::new();
        let mut n = 0;
        for a in rec.addresses() {
            n += 1;
            let Some(ai) = w.addrs.iter().position(|x| x == a) else {
                return Err(("unknown-address-in-store".into(), format!("store holds address {a} that was never used")));
            };
            set.insert(ai);
        }
        if n != set.len() {
            return Err(("duplicate-address-in-record".into(), format!("peer {pi} lists {n} addresses, {} distinct", set.len())));
        }
        // second public view must agree
        let via: Option<BTreeSet<usize>> =
            b.address_of_peer(pid).map(|it| it.filter_map(|a| w.addrs.iter().position(|x| x == a)).collect());
        if via.as_ref() != Some(&set) {
            return Err(("views-disagree".into(), format!("record_iter says {set:?}, addresses_of_peer says {via:?} for peer {pi}")));
        }
        if out.insert(pi, set).is_some() {
            return Err(("duplicate-peer-record".into(), format!("peer {pi} appears twice in record_iter")));
        }
    }
    Ok(out)
}

fn io_err() -> TransportError<io::Error> {
    TransportError::Other(io::Error::new(io::ErrorKind::ConnectionRefused, "refused"))
}

/// Apply one op to the real store. Returns the bool result of explicit add/remove.
fn apply(b: &mut B, w: &World, op: &Op, conn: usize) -> Option<bool> {
    let cid = ConnectionId::new_unchecked(conn);
    match op {
        Op::Add(p, a) => Some(b.store_mut().add_address(&w.peers[*p], &w.addrs[*a])),
        Op::Remove(p, a) => Some(b.store_mut().remove_address(&w.peers[*p], &w.addrs[*a])),
        Op::Report(p, a) => {
            b.on_swarm_event(FromSwarm::NewExternalAddrOfPeer(NewExternalAddrOfPeer { peer_id: w.peers[*p], addr: &w.addrs[*a] }));
            None
        }
        Op::Established { p, dialer, remote, failed } => {
            let endpoint = if *dialer {
                ConnectedPoint::Dialer { address: w.addrs[*remote].clone(), role_override: Endpoint::Dialer, port_use: PortUse::Reuse }
            } else {
                ConnectedPoint::Listener { local_addr: "/memory/1".parse().unwrap(), send_back_addr: w.addrs[*remote].clone() }
            };
            let failed: Vec<Multiaddr> = failed.iter().map(|i| w.addrs[*i].clone()).collect();
            b.on_swarm_event(FromSwarm::ConnectionEstablished(ConnectionEstablished {
                peer_id: w.peers[*p],
                connection_id: cid,
                endpoint: &endpoint,
                failed_addresses: &failed,
                other_established: 0,
            }));
            None
        }
        Op::FailTransport { p, addrs } => {
            let err = DialError::Transport(addrs.iter().map(|i| (w.addrs[*i].clone(), io_err())).collect());
            b.on_swarm_event(FromSwarm::DialFailure(DialFailure { peer_id: p.map(|i| w.peers[i]), error: &err, connection_id: cid }));
            None
        }
        Op::FailWrongPeer { p, obtained, a } => {
            let err = DialError::WrongPeerId { obtained: w.peers[*obtained], address: w.addrs[*a].clone() };
            b.on_swarm_event(FromSwarm::DialFailure(DialFailure { peer_id: Some(w.peers[*p]), error: &err, connection_id: cid }));
            None
        }
        Op::FailOther { p, kind, a } => {
            let err = match kind {
                0 => DialError::LocalPeerId { address: w.addrs[*a].clone() },
                1 => DialError::NoAddresses,
                2 => DialError::Aborted,
                _ => DialError::DialPeerConditionFalse(PeerCondition::Disconnected),
            };
            b.on_swarm_event(FromSwarm::DialFailure(DialFailure { peer_id: Some(w.peers[*p]), error: &err, connection_id: cid }));
            None
        }
        Op::InsertData(p) => {
            b.store_mut().insert_custom_data(&w.peers[*p], conn as u32);
            None
        }
        Op::TakeData(p) => {
            let _ = b.store_mut().take_custom_data(&w.peers[*p]);
            None
        }
        Op::Unrelated(k, a) => {
            match k {
                0 => b.on_swarm_event(FromSwarm::NewListenAddr(NewListenAddr { listener_id: ListenerId::next(), addr: &w.addrs[*a] })),
                1 => b.on_swarm_event(FromSwarm::ExternalAddrConfirmed(ExternalAddrConfirmed { addr: &w.addrs[*a] })),
                _ => {
                    // a dial failure without a known peer
                    let err = DialError::Transport(vec![(w.addrs[*a].clone(), io_err())]);
                    b.on_swarm_event(FromSwarm::DialFailure(DialFailure { peer_id: None, error: &err, connection_id: cid }));
                }
            }
            None
        }
    }
}

fn drain(b: &mut B) -> Vec<Event> {
    let w = vmon::exec::noop_waker();
    let mut cx = Context::from_waker(&w);
    let mut out = vec![];
    for _ in 0..10_000 {
        match b.poll(&mut cx) {
            Poll::Ready(ToSwarm::GenerateEvent(e)) => out.push(e),
            Poll::Ready(_) => {}
            Poll::Pending => break,
        }
    }
    out
}

#[derive(Default)]
struct Stats {
    auto_removed: u64,
    perm_survived: u64,
    evict_record: u64,
    evict_peer: u64,
    explicit_removed: u64,
    added: u64,
    removed: u64,
    pre_evictions: u64,
}
impl Stats {
    fn merge(&mut self, o: &Stats) {
        self.auto_removed += o.auto_removed;
        self.perm_survived += o.perm_survived;
        self.evict_record += o.evict_record;
        self.evict_peer += o.evict_peer;
        self.explicit_removed += o.explicit_removed;
        self.added += o.added;
        self.removed += o.removed;
    }
}

/// Result of judging one step under a hypothesis.
struct StepOut {
    explicit: BTreeSet<(usize, usize)>,
    d: Stats,
}

/// Judge one step: fold `events` over `before` and compare with `after`.
///
/// `pre_evicted`: hypothesis that the whole record of this peer was silently evicted *before* the
/// operation's own effects (only tried by the caller when the store was already above
/// `peer_capacity` before the step, i.e. when a capacity eviction is due at any moment).
#[allow(clippy::too_many_arguments)]
fn judge_step(
    w: &World,
    op: &Op,
    ret: Option<bool>,
    before: &Contents,
    after: &Contents,
    events: &[Event],
    explicit_in: &BTreeSet<(usize, usize)>,
    pre_evicted: Option<usize>,
) -> Result<StepOut, (String, String)> {
    let mut explicit = explicit_in.clone();
    let mut d = Stats::default();
    let mut base = before.clone();
    if let Some(x) = pre_evicted {
        if base.remove(&x).is_some_and(|s| !s.is_empty()) {
            d.evict_peer += 1;
        }
        explicit.retain(|(p, _)| *p != x);
    }
    // ---- fold the events over `base`
    let mut running = base.clone();
    let mut n_added = 0;
    let mut n_removed = 0;
    for ev in events {
        match ev {
            Event::PeerAddressAdded { peer_id, address, is_permanent } => {
                let (Some(pi), Some(ai)) = (w.peers.iter().position(|x| x == peer_id), w.addrs.iter().position(|x| x == address)) else {
                    return Err(("event-names-unknown-pair".into(), format!("{ev:?}")));
                };
                n_added += 1;
                d.added += 1;
                if !running.entry(pi).or_default().insert(ai) {
                    return Err(("added-event-for-present-address".into(), format!("{ev:?} but the pair was already stored")));
                }
                let want_perm = matches!(op, Op::Add(p, a) if *p == pi && *a == ai);
                if *is_permanent != want_perm {
                    return Err(("added-event-permanent-flag".into(), format!("{ev:?}, expected is_permanent={want_perm}")));
                }
                if want_perm {
                    explicit.insert((pi, ai));
                } else {
                    explicit.remove(&(pi, ai));
                }
            }
            Event::PeerAddressRemoved { peer_id, address } => {
                let (Some(pi), Some(ai)) = (w.peers.iter().position(|x| x == peer_id), w.addrs.iter().position(|x| x == address)) else {
                    return Err(("event-names-unknown-pair".into(), format!("{ev:?}")));
                };
                n_removed += 1;
                d.removed += 1;
                if !running.get_mut(&pi).map(|s| s.remove(&ai)).unwrap_or(false) {
                    return Err(("removed-event-for-absent-address".into(), format!("{ev:?} but the pair was not stored")));
                }
                if op.is_swarm_event() {
                    d.auto_removed += 1;
                    if explicit.contains(&(pi, ai)) {
                        return Err((
                            "permanent-address-removed-by-swarm-event".into(),
                            format!("explicitly added pair (peer {pi}, addr {ai}) was removed automatically"),
                        ));
                    }
                } else {
                    d.explicit_removed += 1;
                }
                explicit.remove(&(pi, ai));
            }
        }
    }

    // ---- explicit API results
    match op {
        Op::Add(p, a) => {
            let was = base.get(p).is_some_and(|s| s.contains(a));
            if !after.get(p).is_some_and(|s| s.contains(a)) {
                return Err(("explicit-add-not-stored".into(), "pair absent right after add_address".into()));
            }
            if ret != Some(n_added == 1) || n_removed != 0 {
                return Err(("added-event-vs-return".into(), format!("returned {ret:?} with {n_added} Added / {n_removed} Removed events")));
            }
            if ret == Some(was) {
                return Err(("add-return-vs-novelty".into(), format!("returned {ret:?}, pair stored before: {was}")));
            }
            explicit.insert((*p, *a));
        }
        Op::Remove(p, a) => {
            let was = base.get(p).is_some_and(|s| s.contains(a));
            if after.get(p).is_some_and(|s| s.contains(a)) {
                return Err(("explicit-remove-ineffective".into(), "pair still stored after remove_address".into()));
            }
            if ret != Some(n_removed == 1) || n_added != 0 {
                return Err(("removed-event-vs-return".into(), format!("returned {ret:?} with {n_removed} Removed / {n_added} Added events")));
            }
            if ret != Some(was) {
                return Err(("remove-return-vs-presence".into(), format!("returned {ret:?}, pair stored before: {was}")));
            }
        }
        Op::InsertData(_) | Op::TakeData(_) | Op::Unrelated(..) => {
            if n_added + n_removed != 0 {
                return Err(("event-from-unrelated-operation".into(), format!("{} events", n_added + n_removed)));
            }
        }
        _ => {}
    }

    // ---- folded contents vs observed contents
    let folded_peers: usize = {
        // peers that have a record according to the fold: any address, or still observed (data-only records)
        let mut s: BTreeSet<usize> = running.iter().filter(|(_, v)| !v.is_empty()).map(|(k, _)| *k).collect();
        s.extend(after.keys().copied());
        s.len()
    };
    let peer_overflow = folded_peers.saturating_sub(w.peer_cap);
    let mut vanished_peers = 0usize;
    for (pi, want) in &running {
        match after.get(pi) {
            Some(got) => {
                if let Some(extra) = got.difference(want).next() {
                    return Err(("address-appeared-without-added-event".into(), format!("peer {pi} addr {extra} stored without an event")));
                }
                let vanished: Vec<usize> = want.difference(got).copied().collect();
                let allowed = want.len().saturating_sub(w.record_cap);
                if vanished.len() > allowed {
                    return Err((
                        "address-vanished-without-removed-event".into(),
                        format!("peer {pi} lost {vanished:?} silently; capacity overflow explains only {allowed}"),
                    ));
                }
                d.evict_record += vanished.len() as u64;
                for a in vanished {
                    explicit.remove(&(*pi, a));
                }
            }
            None => {
                if !want.is_empty() {
                    vanished_peers += 1;
                    for a in want {
                        explicit.remove(&(*pi, *a));
                    }
                }
            }
        }
    }
    for (pi, got) in after {
        if !running.contains_key(pi) && !got.is_empty() {
            return Err(("address-appeared-without-added-event".into(), format!("peer {pi} appeared with {got:?} without events")));
        }
    }
    if vanished_peers > peer_overflow {
        return Err((
            "peer-vanished-without-events".into(),
            format!("{vanished_peers} peer record(s) with addresses disappeared silently; peer capacity overflow explains only {peer_overflow}"),
        ));
    }
    d.evict_peer += vanished_peers as u64;

    // ---- permanent addresses named by a failure and still there
    if op.is_failure_event() && w.remove_on_err {
        let named: Vec<(usize, usize)> = match op {
            Op::Established { p, dialer: true, failed, .. } => failed.iter().map(|a| (*p, *a)).collect(),
            Op::FailTransport { p: Some(p), addrs } => addrs.iter().map(|a| (*p, *a)).collect(),
            Op::FailWrongPeer { p, a, .. } | Op::FailOther { p, a, kind: 0 } => vec![(*p, *a)],
            _ => vec![],
        };
        for (p, a) in named {
            if explicit.contains(&(p, a)) && after.get(&p).is_some_and(|s| s.contains(&a)) {
                d.perm_survived += 1;
            }
        }
    }
    explicit.retain(|(p, a)| after.get(p).is_some_and(|s| s.contains(a)));
    Ok(StepOut { explicit, d })
}

/// One history. Returns Some((signature, what)) on the first violation that invalidates the rest of
/// the history; capacity violations (pure state invariants) are pushed to `soft` and the history goes on,
/// so that a capacity defect does not shadow the other oracles.
fn run_history(w: &World, ops: &[Op], stats: &mut Stats, trace: &mut Vec<Value>, soft: &mut Vec<(String, String, usize)>) -> Option<(String, String)> {
    let cfg = Config::default()
        .set_record_capacity(NonZeroUsize::new(w.record_cap).unwrap())
        .set_peer_capacity(NonZeroUsize::new(w.peer_cap).unwrap())
        .set_remove_addr_on_dial_error(w.remove_on_err);
    let mut b: B = Behaviour::new(MemoryStore::new(cfg));
    // model: contents as observed after the previous step + who was added explicitly
    let mut contents = Contents::new();
    let mut explicit: BTreeSet<(usize, usize)> = BTreeSet::new();
    for (step, op) in ops.iter().enumerate() {
        let before = contents.clone();
        let ret = apply(&mut b, w, op, step);
        let events = drain(&mut b);
        let after = match observe(&b, w) {
            Ok(c) => c,
            Err((sig, what)) => return Some((sig, format!("step {step} {op:?}: {what}"))),
        };
        trace.push(json!({"op": op.to_json(), "ret": ret, "events": events.iter().map(|e| format!("{e:?}")).collect::<Vec<_>>(), "after": format!("{after:?}")}));

        let mut res = judge_step(w, op, ret, &before, &after, &events, &explicit, None);
        if res.is_err() && before.len() > w.peer_cap {
            // The store was already above peer_capacity (reported separately as
            // `peer-capacity-exceeded`): a capacity eviction of any one record may precede the
            // operation's own effects. Accept the step if one such eviction explains it.
            for x in before.keys() {
                if let Ok(o) = judge_step(w, op, ret, &before, &after, &events, &explicit, Some(*x)) {
                    res = Ok(o);
                    stats.pre_evictions += 1;
                    break;
                }
            }
        }
        match res {
            Err((sig, what)) => return Some((sig, format!("step {step} {op:?}: {what}"))),
            Ok(o) => {
                explicit = o.explicit;
                stats.merge(&o.d);
            }
        }

        // ---- capacities
        for (pi, got) in &after {
            if got.len() > w.record_cap && !soft.iter().any(|s| s.0 == "record-capacity-exceeded") {
                soft.push(("record-capacity-exceeded".into(), format!("step {step} {op:?}: peer {pi} holds {} addresses, record_capacity {}", got.len(), w.record_cap), step + 1));
            }
        }
        if after.len() > w.peer_cap && !soft.iter().any(|s| s.0 == "peer-capacity-exceeded") {
            soft.push(("peer-capacity-exceeded".into(), format!("step {step} {op:?}: store holds {} peers, peer_capacity {}", after.len(), w.peer_cap), step + 1));
        }
        contents = after;
    }
    None
}

fn world_json(w: &World) -> Value {
    json!({
        "peers": w.peers.iter().map(|p| p.to_string()).collect::<Vec<_>>(),
        "addrs": w.addrs.iter().map(|a| a.to_string()).collect::<Vec<_>>(),
        "record_capacity": w.record_cap, "peer_capacity": w.peer_cap, "remove_addr_on_dial_error": w.remove_on_err,
    })
}

pub fn run(args: &Args) -> i32 {
    let mut check = Check::new(
        args,
        "exploration",
        "PRNG histories (20-120 ops) of add/remove/report/established/dial-failure/custom-data over 2-6 peers x 2-8 addresses with \
         record_capacity 1-8 and peer_capacity 1-1000; non-trivial = history in which an automatic removal happened AND an \
         explicitly added address named by a failure survived; distinct by hash of (config, op sequence)",
    );
    let tiny = args.extra.get("budget").map(|s| s == "tiny").unwrap_or(false);
    let n = if tiny { 16 } else { args.tier.pick(30_000u64, 1_500_000) };
    vmon::par_cases(&check, n, args.threads, |_i, rng| {
        let w = gen_world(rng);
        let len = if tiny { 40 } else { 20 + rng.usize(101) };
        let ops: Vec<Op> = (0..len).map(|_| gen_op(rng, &w)).collect();
        let mut stats = Stats::default();
        let mut trace = vec![];
        let mut soft = vec![];
        let res = catch(|| run_history(&w, &ops, &mut stats, &mut trace, &mut soft));
        let mut sig = Sig::new().u64(w.record_cap as u64).u64(w.peer_cap as u64).u64(w.remove_on_err as u64);
        for op in &ops {
            sig.push_str(&format!("{op:?}"));
        }
        let witness = |upto: usize| json!({"world": world_json(&w), "ops": ops.iter().take(upto).map(|o| o.to_json()).collect::<Vec<_>>(), "trace_tail": trace.iter().rev().take(6).rev().cloned().collect::<Vec<_>>()});
        for (s, what, upto) in soft {
            check.violation(s, what, json!({"world": world_json(&w), "ops": ops.iter().take(upto).map(|o| o.to_json()).collect::<Vec<_>>()}));
        }
        match res {
            Err(p) => check.violation(format!("panic@{}", p.site()), format!("panic: {}", p.msg), witness(trace.len() + 1)),
            Ok(Some((s, what))) => check.violation(s, what, witness(trace.len())),
            Ok(None) => {}
        }
        check.case(sig.0, stats.auto_removed > 0 && stats.perm_survived > 0);
        check.count("ops_total", ops.len() as u64);
        for op in &ops {
            check.count(&format!("ops_{}", op.kind()), 1);
        }
        check.count("auto_removed", stats.auto_removed);
        check.count("perm_survived_failure", stats.perm_survived);
        check.count("evictions_record", stats.evict_record);
        check.count("evictions_peer", stats.evict_peer);
        check.count("explicit_removed", stats.explicit_removed);
        check.count("events_added", stats.added);
        check.count("events_removed", stats.removed);
        check.count("steps_explained_by_eviction_while_over_capacity", stats.pre_evictions);
        if check.want_sample() && stats.auto_removed > 0 && stats.perm_survived > 0 {
            check.sample(json!({"world": world_json(&w), "first_ops": ops.iter().take(12).map(|o| o.to_json()).collect::<Vec<_>>(), "n_ops": ops.len(),
                "auto_removed": stats.auto_removed, "perm_survived": stats.perm_survived, "evictions": stats.evict_record + stats.evict_peer}));
        }
    });
    check.note("exhaustive", json!(false));
    check.assume("store contents are what record_iter()/addresses_of_peer() report (both views are cross-checked)");
    util::require_observed(
        &mut check,
        &["auto_removed", "perm_survived_failure", "evictions_record", "evictions_peer", "explicit_removed", "events_added", "events_removed"],
    );
    check.finish()
}
