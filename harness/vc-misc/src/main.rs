mod c54;
mod selftest;
mod util;

fn main() {
    vmon::run_main(&[
        ("SELFTEST", selftest::run),
        ("C54", c54::run),
    ]);
}
