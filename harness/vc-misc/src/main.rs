mod c22;
mod c23;
mod c54;
mod c55;
mod c56;
mod selftest;
mod util;

fn main() {
    vmon::run_main(&[
        ("SELFTEST", selftest::run),
        ("C22", c22::run),
        ("C23", c23::run),
        ("C54", c54::run),
        ("C55", c55::run),
        ("C56", c56::run),
    ]);
}
