mod c22;
mod c54;
mod selftest;
mod util;

fn main() {
    vmon::run_main(&[
        ("SELFTEST", selftest::run),
        ("C22", c22::run),
        ("C54", c54::run),
    ]);
}
