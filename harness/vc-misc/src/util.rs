//! Small helpers shared by the vc-misc checks.
#![allow(dead_code)]
use std::{
    io,
    pin::Pin,
    sync::{Arc, Mutex},
    task::{Context, Poll},
};

use futures::io::{AsyncRead, AsyncWrite};
use libp2p_identity::PeerId;
use vmon::{Check, Rng, pipe::End};

/// Deterministic PeerId (identity multihash over 32 PRNG bytes — shape of an ed25519 peer id's
/// digest length class; no key generation, so it is Miri-friendly and seed-reproducible).
pub fn peer_id_from(rng: &mut Rng) -> PeerId {
    let mut b = vec![0x00u8, 36, 0x08, 0x01, 0x12, 0x20];
    b.extend_from_slice(&rng.bytes(32));
    PeerId::from_bytes(&b).expect("identity multihash of 36 bytes is a valid peer id")
}

/// Deterministic sha2-256 style PeerId ("Qm…").
pub fn peer_id_sha_from(rng: &mut Rng) -> PeerId {
    let mut b = vec![0x12u8, 32];
    b.extend_from_slice(&rng.bytes(32));
    PeerId::from_bytes(&b).expect("sha2-256 multihash is a valid peer id")
}

/// `vmon::pipe::End` behind `Arc<Mutex<..>>` so that it is `Clone` (needed by
/// `libp2p_webrtc_utils::Stream::new`, which clones the data channel for its drop listener).
#[derive(Clone)]
pub struct SharedEnd(pub Arc<Mutex<End>>);

impl SharedEnd {
    pub fn new(e: End) -> Self {
        SharedEnd(Arc::new(Mutex::new(e)))
    }
}
impl AsyncRead for SharedEnd {
    fn poll_read(self: Pin<&mut Self>, cx: &mut Context<'_>, buf: &mut [u8]) -> Poll<io::Result<usize>> {
        let mut g = self.0.lock().unwrap();
        Pin::new(&mut *g).poll_read(cx, buf)
    }
}
impl AsyncWrite for SharedEnd {
    fn poll_write(self: Pin<&mut Self>, cx: &mut Context<'_>, buf: &[u8]) -> Poll<io::Result<usize>> {
        let mut g = self.0.lock().unwrap();
        Pin::new(&mut *g).poll_write(cx, buf)
    }
    fn poll_flush(self: Pin<&mut Self>, cx: &mut Context<'_>) -> Poll<io::Result<()>> {
        let mut g = self.0.lock().unwrap();
        Pin::new(&mut *g).poll_flush(cx)
    }
    fn poll_close(self: Pin<&mut Self>, cx: &mut Context<'_>) -> Poll<io::Result<()>> {
        let mut g = self.0.lock().unwrap();
        Pin::new(&mut *g).poll_close(cx)
    }
}

/// Coverage classes that a run must have observed at least once; a missing class turns the run
/// into `inconclusive` (exit 2) instead of a silent pass ("a run that observed nothing must not
/// pass"). Call right before `check.finish()`.
pub fn require_observed(check: &mut Check, classes: &[&str]) {
    let missing: Vec<String> = classes.iter().filter(|c| check.counter(c) == 0).map(|c| c.to_string()).collect();
    if !missing.is_empty() {
        check.inconclusive(format!("required coverage classes never observed: {missing:?}"));
        check.min_nontrivial = u64::MAX;
    }
}
