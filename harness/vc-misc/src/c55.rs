//! C55 — mDNS response packets encode exactly the advertised addresses.
//!
//! Real code through the cfg(libp2p_verif) facade `libp2p_mdns::verif`:
//! `build_query_response(id, peer, addrs, ttl)` (dns.rs) and `parse_packet(bytes, from)`
//! (`MdnsPacket::new_from_bytes` → `MdnsResponse::new` → `MdnsPeer::new`, query.rs).
//!
//! Oracle, from the statement:
//! * every packet is at most 9000 bytes;
//! * every packet is a structurally valid DNS message for an **independent parser written here from
//!   RFC 1035** (counts, names, RDLENGTHs, TXT RDATA = sequence of <len><bytes> character-strings that
//!   fills RDLENGTH exactly);
//! * decoding all packets with the crate's own parser yields peers that all carry the advertised peer
//!   id, and the multiset of decoded addresses equals the multiset of advertised addresses whose TXT
//!   value `dnsaddr=<addr>/p2p/<peer>` fits one character-string (≤ 255 bytes);
//! * the TXT values seen by the independent parser are, in order, the expected values (raw, or quoted
//!   with `\\`-escapes — both wire forms are accepted, the statement does not fix one);
//! * `parse_packet` never panics on arbitrary bytes (random, mutated real packets, hostile but
//!   well-formed packets produced by an independent encoder).
//!
//! Not judged: addresses whose text is not ASCII (the encoder refuses them by design; they only must
//! not disturb the others), addresses whose raw value fits 255 bytes but whose quoted form does not,
//! order of decoded addresses, TTL values, what the parser extracts from hostile packets.
//!
//! Violation signatures carry the input feature that matters for triage:
//! `…:space+escape-in-address`, `…:space-in-address` (an advertised ASCII address contains a blank,
//! i.e. the encoder's quoting path is taken) or no suffix.
use std::{
    collections::BTreeMap,
    net::{IpAddr, Ipv4Addr, SocketAddr},
    time::Duration,
};

use libp2p_core::{Multiaddr, multiaddr::Protocol};
use libp2p_identity::PeerId;
use libp2p_mdns::verif::{Parsed, build_query, build_query_response, build_service_discovery_response, parse_packet};
use vmon::{Args, Check, Rng, Sig, Value, catch, json};

use crate::util;

// ---------------------------------------------------------------------------------------------
// Independent DNS wire parser / encoder (RFC 1035)
// ---------------------------------------------------------------------------------------------

#[derive(Debug, Clone)]
struct Rr {
    name: Vec<Vec<u8>>,
    typ: u16,
    #[allow(dead_code)]
    class: u16,
    #[allow(dead_code)]
    ttl: u32,
    rdata: Vec<u8>,
    /// offset of rdata in the packet (names in rdata may use compression)
    rdata_off: usize,
}
#[derive(Debug, Clone)]
struct Pkt {
    #[allow(dead_code)]
    id: u16,
    flags: u16,
    questions: usize,
    answers: Vec<Rr>,
    #[allow(dead_code)]
    authorities: Vec<Rr>,
    additionals: Vec<Rr>,
}

fn rd_u16(b: &[u8], o: usize) -> Result<u16, String> {
    b.get(o..o + 2).map(|x| u16::from_be_bytes([x[0], x[1]])).ok_or_else(|| format!("truncated at {o}"))
}
fn rd_u32(b: &[u8], o: usize) -> Result<u32, String> {
    b.get(o..o + 4).map(|x| u32::from_be_bytes([x[0], x[1], x[2], x[3]])).ok_or_else(|| format!("truncated at {o}"))
}
/// returns (labels, offset after the name in the original position)
fn rd_name(b: &[u8], mut o: usize) -> Result<(Vec<Vec<u8>>, usize), String> {
    let mut labels = vec![];
    let mut end = None;
    let mut hops = 0;
    loop {
        let l = *b.get(o).ok_or_else(|| format!("name truncated at {o}"))? as usize;
        if l == 0 {
            o += 1;
            break;
        }
        if l & 0xc0 == 0xc0 {
            let p = (rd_u16(b, o)? & 0x3fff) as usize;
            if end.is_none() {
                end = Some(o + 2);
            }
            hops += 1;
            if hops > 64 {
                return Err("compression loop".into());
            }
            o = p;
            continue;
        }
        if l > 63 {
            return Err(format!("label length {l} at {o}"));
        }
        labels.push(b.get(o + 1..o + 1 + l).ok_or_else(|| format!("label truncated at {o}"))?.to_vec());
        o += 1 + l;
    }
    Ok((labels, end.unwrap_or(o)))
}
fn rd_rr(b: &[u8], o: usize) -> Result<(Rr, usize), String> {
    let (name, o) = rd_name(b, o)?;
    let typ = rd_u16(b, o)?;
    let class = rd_u16(b, o + 2)?;
    let ttl = rd_u32(b, o + 4)?;
    let rdlen = rd_u16(b, o + 8)? as usize;
    let rdata = b.get(o + 10..o + 10 + rdlen).ok_or_else(|| format!("rdata truncated at {}", o + 10))?.to_vec();
    Ok((Rr { name, typ, class, ttl, rdata, rdata_off: o + 10 }, o + 10 + rdlen))
}
fn parse_dns(b: &[u8]) -> Result<Pkt, String> {
    if b.len() < 12 {
        return Err("short header".into());
    }
    let id = rd_u16(b, 0)?;
    let flags = rd_u16(b, 2)?;
    let (qd, an, ns, ar) = (rd_u16(b, 4)? as usize, rd_u16(b, 6)? as usize, rd_u16(b, 8)? as usize, rd_u16(b, 10)? as usize);
    let mut o = 12;
    for _ in 0..qd {
        let (_, n) = rd_name(b, o)?;
        o = n + 4;
    }
    let mut secs = vec![];
    for count in [an, ns, ar] {
        let mut v = vec![];
        for _ in 0..count {
            let (rr, n) = rd_rr(b, o)?;
            v.push(rr);
            o = n;
        }
        secs.push(v);
    }
    if o != b.len() {
        return Err(format!("{} trailing bytes after the last record", b.len() - o));
    }
    let additionals = secs.pop().unwrap();
    let authorities = secs.pop().unwrap();
    let answers = secs.pop().unwrap();
    Ok(Pkt { id, flags, questions: qd, answers, authorities, additionals })
}
/// TXT RDATA -> character-strings; must fill the RDATA exactly
fn txt_strings(rdata: &[u8]) -> Result<Vec<Vec<u8>>, String> {
    let mut out = vec![];
    let mut o = 0;
    while o < rdata.len() {
        let l = rdata[o] as usize;
        let s = rdata.get(o + 1..o + 1 + l).ok_or_else(|| format!("character-string of length {l} at rdata offset {o} overruns RDLENGTH {}", rdata.len()))?;
        out.push(s.to_vec());
        o += 1 + l;
    }
    Ok(out)
}
/// Accept both wire forms of a value: raw, or "quoted" with \\ and \" escapes.
fn unquote(s: &[u8]) -> Vec<u8> {
    if s.len() >= 2 && s[0] == b'"' && s[s.len() - 1] == b'"' {
        let inner = &s[1..s.len() - 1];
        let mut out = vec![];
        let mut i = 0;
        while i < inner.len() {
            if inner[i] == b'\\' && i + 1 < inner.len() {
                out.push(inner[i + 1]);
                i += 2;
            } else {
                out.push(inner[i]);
                i += 1;
            }
        }
        out
    } else {
        s.to_vec()
    }
}

fn enc_name(out: &mut Vec<u8>, name: &str) {
    for l in name.split('.').filter(|l| !l.is_empty()) {
        out.push(l.len().min(63) as u8);
        out.extend_from_slice(&l.as_bytes()[..l.len().min(63)]);
    }
    out.push(0);
}
fn enc_rr(out: &mut Vec<u8>, name: &str, typ: u16, class: u16, ttl: u32, rdata: &[u8]) {
    enc_name(out, name);
    out.extend_from_slice(&typ.to_be_bytes());
    out.extend_from_slice(&class.to_be_bytes());
    out.extend_from_slice(&ttl.to_be_bytes());
    out.extend_from_slice(&(rdata.len() as u16).to_be_bytes());
    out.extend_from_slice(rdata);
}

// ---------------------------------------------------------------------------------------------
// Generators
// ---------------------------------------------------------------------------------------------

fn gen_peer(rng: &mut Rng) -> PeerId {
    match rng.below(4) {
        0 => util::peer_id_sha_from(rng),
        1 => {
            // short identity multihash
            let n = 1 + rng.usize(20);
            let mut b = vec![0u8, n as u8];
            b.extend_from_slice(&rng.bytes(n));
            PeerId::from_bytes(&b).expect("identity multihash")
        }
        _ => util::peer_id_from(rng),
    }
}

const NAME_PLAIN: &[u8] = b"abcdefghijklmnopqrstuvwxyz0123456789-_.";
const NAME_ODD: &[u8] = b"abcXYZ019-_.=,;:%+*()[]{}<>!?@#$&'`~|^";

#[derive(Clone, Copy, PartialEq, Eq, Debug)]
enum NameKind {
    Plain,
    Odd,
    Space,
    SpaceEscape,
    QuoteNoSpace,
    NonAscii,
}

fn gen_name(rng: &mut Rng, kind: NameKind, len: usize) -> String {
    let len = len.max(1);
    let mut s: Vec<char> = (0..len)
        .map(|_| match kind {
            NameKind::Plain => *rng.pick(NAME_PLAIN) as char,
            _ => *rng.pick(NAME_ODD) as char,
        })
        .collect();
    let pos = |rng: &mut Rng| rng.usize(len);
    match kind {
        NameKind::Plain | NameKind::Odd => {}
        NameKind::Space => {
            for _ in 0..1 + rng.usize(3) {
                let p = pos(rng);
                s[p] = ' ';
            }
        }
        NameKind::SpaceEscape => {
            let p = pos(rng);
            s[p] = ' ';
            for _ in 0..1 + rng.usize(3) {
                let p = pos(rng);
                s[p] = if rng.bool() { '"' } else { '\\' };
            }
            if !s.contains(&' ') {
                s[0] = ' ';
            }
            if !s.iter().any(|c| *c == '"' || *c == '\\') {
                let last = s.len() - 1;
                s[last] = '\\';
                if !s.contains(&' ') {
                    s.insert(0, ' ');
                }
            }
        }
        NameKind::QuoteNoSpace => {
            for _ in 0..1 + rng.usize(3) {
                let p = pos(rng);
                s[p] = if rng.bool() { '"' } else { '\\' };
            }
        }
        NameKind::NonAscii => {
            let p = pos(rng);
            s[p] = *rng.pick(&['é', 'ß', '中', 'ñ']);
        }
    }
    s.into_iter().collect()
}

struct GenAddr {
    addr: Multiaddr,
    kind: NameKind,
}

fn dns_addr(name: &str, head: u64, port: Option<u16>) -> Multiaddr {
    let head = match head {
        0 => Protocol::Dns(name.to_string().into()),
        1 => Protocol::Dns6(name.to_string().into()),
        2 => Protocol::Dnsaddr(name.to_string().into()),
        _ => Protocol::Dns4(name.to_string().into()),
    };
    let mut m = Multiaddr::empty().with(head);
    if let Some(p) = port {
        m.push(Protocol::Tcp(p));
    }
    m
}

/// An address whose TXT value has (about) `target` bytes for this peer.
fn sized_addr(rng: &mut Rng, peer: &PeerId, kind: NameKind, target: usize) -> Multiaddr {
    let head = rng.below(4);
    let port = if rng.chance(3, 4) { Some(1 + rng.below(65535) as u16) } else { None };
    let overhead = format!("dnsaddr={}/p2p/{}", dns_addr("x", head, port), peer.to_base58()).len() - 1;
    let name = gen_name(rng, kind, target.saturating_sub(overhead));
    dns_addr(&name, head, port)
}

fn gen_addr(rng: &mut Rng, peer: &PeerId, long_bias: bool, blanks: bool) -> GenAddr {
    let kind = match rng.weighted(&[40, 14, if blanks { 12 } else { 0 }, if blanks { 8 } else { 0 }, 8, 3]) {
        0 => NameKind::Plain,
        1 => NameKind::Odd,
        2 => NameKind::Space,
        3 => NameKind::SpaceEscape,
        4 => NameKind::QuoteNoSpace,
        _ => NameKind::NonAscii,
    };
    if !long_bias && kind == NameKind::Plain && rng.chance(1, 2) {
        // ordinary listen addresses
        let a: Multiaddr = match rng.below(5) {
            0 => format!("/ip4/{}.{}.{}.{}/tcp/{}", rng.below(256), rng.below(256), rng.below(256), rng.below(256), rng.below(65536)).parse().unwrap(),
            1 => format!("/ip6/fe80::{:x}:{:x}/udp/{}/quic-v1", rng.below(65536), rng.below(65536), rng.below(65536)).parse().unwrap(),
            2 => Multiaddr::empty(),
            3 => format!("/ip4/10.0.0.{}/tcp/4001/p2p/{}", rng.below(256), peer).parse().unwrap(),
            _ => format!("/ip4/192.168.1.{}/udp/4001/quic-v1/p2p/{}", rng.below(256), util::peer_id_from(rng)).parse().unwrap(),
        };
        return GenAddr { addr: a, kind };
    }
    let target = if long_bias || rng.chance(1, 3) { rng.range(228, 262) as usize } else { rng.range(70, 200) as usize };
    GenAddr { addr: sized_addr(rng, peer, kind, target), kind }
}

// ---------------------------------------------------------------------------------------------
// Round-trip oracle
// ---------------------------------------------------------------------------------------------

struct Case {
    id: u16,
    peer: PeerId,
    addrs: Vec<GenAddr>,
    ttl: Duration,
}

fn gen_case(rng: &mut Rng) -> Case {
    let peer = gen_peer(rng);
    let n = match rng.below(10) {
        0 => 0,
        1 => 1,
        2 => *rng.pick(&[28usize, 29, 30, 31]),
        3 => *rng.pick(&[57usize, 58, 59, 60]),
        4 => 29 + rng.usize(45),
        _ => 1 + rng.usize(12),
    };
    let long_bias = rng.chance(1, 4);
    // names with blanks (the encoder's quoting path) only in a third of the cases
    let blanks = rng.chance(1, 3);
    let addrs = (0..n).map(|_| gen_addr(rng, &peer, long_bias, blanks)).collect();
    let ttl = match rng.below(4) {
        0 => Duration::from_secs(0),
        1 => Duration::from_millis(rng.below(10_000_000)),
        2 => Duration::from_secs(u64::MAX / 4),
        _ => Duration::from_secs(360),
    };
    Case { id: rng.next_u32() as u16, peer, addrs, ttl }
}

fn case_json(c: &Case, packets: Option<&[Vec<u8>]>) -> Value {
    json!({
        "id": c.id, "peer": c.peer.to_string(), "ttl_ms": c.ttl.as_millis().min(u64::MAX as u128) as u64,
        "addrs": c.addrs.iter().map(|a| a.addr.to_string()).collect::<Vec<_>>(),
        "packet_lens": packets.map(|p| p.iter().map(|x| x.len()).collect::<Vec<_>>()),
        "first_packet_hex": packets.and_then(|p| p.first()).map(|p| vmon::hex(&p[..p.len().min(700)])),
    })
}

/// Returns Some((signature, what)) on violation.
fn judge_roundtrip(c: &Case, packets: &[Vec<u8>], stats: &mut BTreeMap<&'static str, u64>) -> Option<(String, String)> {
    let from = SocketAddr::new(IpAddr::V4(Ipv4Addr::new(192, 168, 1, 77)), 5353);
    let b58 = c.peer.to_base58();
    // ---- expectation from the statement
    let mut must: Vec<(Multiaddr, String)> = vec![]; // (addr, expected TXT value)
    let mut unjudged: Vec<Multiaddr> = vec![];
    let mut has_space = false;
    let mut has_escape = false;
    for a in &c.addrs {
        let value = format!("dnsaddr={}/p2p/{}", a.addr, b58);
        if !value.is_ascii() {
            unjudged.push(a.addr.clone());
            *stats.entry("addr_nonascii_unjudged").or_default() += 1;
            continue;
        }
        let quoted = value.contains(' ');
        let esc = value.bytes().filter(|b| *b == b'\\' || *b == b'"').count();
        let enc_len = if quoted { value.len() + 2 + esc } else { value.len() };
        if value.len() > 255 {
            *stats.entry("addr_too_long_excluded").or_default() += 1;
            continue;
        }
        if quoted {
            has_space = true;
            if esc > 0 {
                has_escape = true;
            }
        }
        if enc_len > 255 {
            unjudged.push(a.addr.clone());
            *stats.entry("addr_quoted_form_too_long_unjudged").or_default() += 1;
            continue;
        }
        if value.len() >= 250 {
            *stats.entry("addr_fits_within_5_of_limit").or_default() += 1;
        }
        must.push((a.addr.clone(), value));
    }
    let suffix = if has_escape {
        ":space+escape-in-address"
    } else if has_space {
        ":space-in-address"
    } else {
        ""
    };
    *stats.entry("addrs_must_decode").or_default() += must.len() as u64;
    if packets.len() > 1 {
        *stats.entry("multi_packet_responses").or_default() += 1;
    }

    // ---- size
    for (i, p) in packets.iter().enumerate() {
        if p.len() > 9000 {
            // whether the packet respects the documented 29-records-per-packet split is part of the signature
            let n = parse_dns(p).map(|k| k.additionals.len()).unwrap_or(usize::MAX);
            let class = if n <= 29 { "at-most-29-txt-records" } else { "more-than-29-txt-records" };
            return Some((format!("packet-too-large:{class}"), format!("packet {i} of {} has {} bytes (> 9000) with {n} TXT records", packets.len(), p.len())));
        }
        if p.len() > 8000 {
            *stats.entry("packets_over_8000_bytes").or_default() += 1;
        }
    }
    if packets.is_empty() {
        return Some(("no-packet".into(), "build_query_response returned no packet".into()));
    }

    // ---- independent structural parse
    let mut indep_values: Vec<Vec<u8>> = vec![];
    for (i, p) in packets.iter().enumerate() {
        let pkt = match parse_dns(p) {
            Ok(x) => x,
            Err(e) => return Some((format!("malformed-dns-packet{suffix}"), format!("packet {i}: independent parser: {e}"))),
        };
        if pkt.flags & 0x8000 == 0 || pkt.questions != 0 {
            return Some((format!("not-a-response{suffix}"), format!("packet {i}: flags {:04x}, {} questions", pkt.flags, pkt.questions)));
        }
        if rd_u16(p, 0).ok() != Some(c.id) {
            return Some((format!("wrong-transaction-id{suffix}"), format!("packet {i}: id {:?}, query id {}", rd_u16(p, 0), c.id)));
        }
        let svc: Vec<Vec<u8>> = vec![b"_p2p".to_vec(), b"_udp".to_vec(), b"local".to_vec()];
        let ptr: Vec<&Rr> = pkt.answers.iter().filter(|r| r.typ == 12 && r.name == svc).collect();
        if ptr.len() != 1 {
            return Some((format!("ptr-answer-count{suffix}"), format!("packet {i}: {} PTR answers for _p2p._udp.local", ptr.len())));
        }
        let (target, _) = match rd_name(p, ptr[0].rdata_off) {
            Ok(x) => x,
            Err(e) => return Some((format!("malformed-dns-packet{suffix}"), format!("packet {i}: PTR rdata: {e}"))),
        };
        for rr in &pkt.additionals {
            if rr.typ != 16 {
                continue;
            }
            if rr.name != target {
                return Some((format!("txt-owner-differs-from-ptr-target{suffix}"), format!("packet {i}")));
            }
            // the response format puts exactly one character-string into each TXT record
            if rr.rdata.is_empty() || rr.rdata[0] as usize != rr.rdata.len() - 1 {
                return Some((
                    format!("txt-length-byte-mismatch{suffix}"),
                    format!("packet {i}: TXT RDATA of {} bytes starts with length byte {:?} (a single character-string would need {})", rr.rdata.len(), rr.rdata.first(), rr.rdata.len().saturating_sub(1)),
                ));
            }
            match txt_strings(&rr.rdata) {
                Err(e) => return Some((format!("malformed-txt-rdata{suffix}"), format!("packet {i}: {e}"))),
                Ok(strings) => {
                    if strings.len() != 1 {
                        return Some((format!("txt-not-single-string{suffix}"), format!("packet {i}: a TXT record carries {} character-strings", strings.len())));
                    }
                    indep_values.push(unquote(&strings[0]));
                }
            }
        }
    }
    // expected values, in order, interleaved with unjudged ones: compare as subsequence-free multiset
    {
        let mut want: Vec<&[u8]> = must.iter().map(|(_, v)| v.as_bytes()).collect();
        want.sort();
        let mut got: Vec<&[u8]> = indep_values.iter().map(|v| v.as_slice()).collect();
        got.sort();
        // every must-value present
        let mut gi = 0;
        for w in &want {
            while gi < got.len() && got[gi] < *w {
                gi += 1;
            }
            if gi >= got.len() || got[gi] != *w {
                return Some((format!("txt-value-missing{suffix}"), format!("independent parser does not see the TXT value {:?}", String::from_utf8_lossy(w))));
            }
            gi += 1;
        }
        if got.len() > want.len() + unjudged.len() {
            return Some((format!("txt-value-extra{suffix}"), format!("{} TXT values on the wire, {} expected (+{} unjudged)", got.len(), want.len(), unjudged.len())));
        }
    }

    // ---- the crate's own parser
    let mut decoded: Vec<Multiaddr> = vec![];
    for (i, p) in packets.iter().enumerate() {
        match parse_packet(p, from) {
            Err(e) => return Some((format!("own-parser-rejects-own-packet{suffix}"), format!("packet {i}: {e}"))),
            Ok(Parsed::Response(peers)) => {
                for (pid, addrs, _ttl) in peers {
                    if pid != c.peer {
                        return Some((format!("foreign-peer-id{suffix}"), format!("packet {i}: decoded peer {pid}, advertised {}", c.peer)));
                    }
                    decoded.extend(addrs);
                }
            }
            Ok(other) => return Some((format!("own-parser-misclassifies-response{suffix}"), format!("packet {i}: parsed as {other:?}"))),
        }
    }
    let mut want: Vec<Vec<u8>> = must.iter().map(|(a, _)| a.to_vec()).collect();
    want.sort();
    let mut got: Vec<Vec<u8>> = decoded.iter().map(|a| a.to_vec()).collect();
    got.sort();
    let mut extra: Vec<Vec<u8>> = vec![];
    let (mut wi, mut gi) = (0, 0);
    while wi < want.len() || gi < got.len() {
        if wi < want.len() && gi < got.len() && want[wi] == got[gi] {
            wi += 1;
            gi += 1;
        } else if gi < got.len() && (wi >= want.len() || got[gi] < want[wi]) {
            extra.push(got[gi].clone());
            gi += 1;
        } else {
            let m = Multiaddr::try_from(want[wi].clone()).map(|m| m.to_string()).unwrap_or_default();
            return Some((format!("advertised-address-not-decoded{suffix}"), format!("{m} (fits one TXT string) is missing from the decoded addresses ({} decoded, {} expected)", got.len(), want.len())));
        }
    }
    let mut unj: Vec<Vec<u8>> = unjudged.iter().map(|a| a.to_vec()).collect();
    for e in extra {
        match unj.iter().position(|u| *u == e) {
            Some(i) => {
                unj.swap_remove(i);
            }
            None => {
                let m = Multiaddr::try_from(e).map(|m| m.to_string()).unwrap_or_default();
                return Some((format!("decoded-address-not-advertised{suffix}"), format!("{m} was decoded but is not an advertised address that fits")));
            }
        }
    }
    *stats.entry("addrs_decoded").or_default() += got.len() as u64;
    None
}

// ---------------------------------------------------------------------------------------------
// Hostile packets
// ---------------------------------------------------------------------------------------------

/// Panic site for signatures: `/repo/`-relative for the code under test, `dep:<crate-version>/src/..`
/// for a dependency reached with the remote's bytes (machine-specific registry prefix removed).
fn stable_site(p: &vmon::PanicInfo) -> String {
    if p.in_repo() {
        return p.site();
    }
    match p.location.find("/registry/src/") {
        Some(i) => {
            let rest = &p.location[i + "/registry/src/".len()..];
            format!("dep:{}", rest.split_once('/').map(|x| x.1).unwrap_or(rest))
        }
        None => p.location.clone(),
    }
}

const EXOTIC_TYPES: &[u16] = &[250, 249, 24, 46, 41, 47, 50, 48, 43, 64, 65, 257, 35, 6, 33, 52, 37, 44, 13, 15, 2, 5, 12, 28, 99, 255, 251, 252, 0, 65535];

fn hostile_packet(rng: &mut Rng, seed_packets: &[Vec<u8>]) -> (Vec<u8>, &'static str) {
    match rng.below(8) {
        0 => {
            let n = rng.usize(600);
            (rng.bytes(n), "random")
        }
        1 | 2 if !seed_packets.is_empty() => {
            // mutate a real packet
            let mut p = rng.pick(seed_packets).clone();
            for _ in 0..1 + rng.usize(4) {
                if p.is_empty() {
                    break;
                }
                let i = if rng.chance(1, 3) { rng.usize(p.len().min(12)) } else { rng.usize(p.len()) };
                match rng.below(4) {
                    0 => p[i] ^= 1 << rng.below(8),
                    1 => p[i] = *rng.pick(&[0u8, 0xff, 0xc0, 0x3f, 0x40, b'"', b'\\']),
                    2 => {
                        p.truncate(i);
                    }
                    _ => {
                        let j = rng.usize(p.len());
                        p.swap(i, j);
                    }
                }
            }
            (p, "mutated-real")
        }
        3 if !seed_packets.is_empty() => {
            // splice two real packets
            let a = rng.pick(seed_packets);
            let b = rng.pick(seed_packets);
            let mut p = a[..rng.usize(a.len() + 1)].to_vec();
            p.extend_from_slice(&b[rng.usize(b.len() + 1)..]);
            (p, "spliced")
        }
        5 => {
            // records of types with elaborate RDATA parsers, RDLENGTH unrelated to what follows
            let mut p = vec![];
            let an = rng.below(2) as u16;
            let ar = 1 + rng.below(3) as u16;
            p.extend_from_slice(&(rng.next_u32() as u16).to_be_bytes());
            p.extend_from_slice(&[0x84, 0x00, 0, 0]);
            p.extend_from_slice(&an.to_be_bytes());
            p.extend_from_slice(&[0, 0]);
            p.extend_from_slice(&ar.to_be_bytes());
            for k in 0..(an + ar) {
                let owner = if k < an { "_p2p._udp.local" } else { "x.local" };
                if rng.chance(1, 3) {
                    p.push(0);
                } else {
                    enc_name(&mut p, owner);
                }
                p.extend_from_slice(&rng.pick(EXOTIC_TYPES).to_be_bytes());
                p.extend_from_slice(&(*rng.pick(&[1u16, 0x8001, 255, 254])).to_be_bytes());
                p.extend_from_slice(&rng.next_u32().to_be_bytes());
                let n = rng.usize(40);
                let body: Vec<u8> = if rng.bool() { rng.bytes(n) } else { (0..n).map(|_| *rng.pick(&[0u8, 0, 0, 1, 0xff, 0xc0, 3])).collect() };
                let rdlen = match rng.below(4) {
                    0 => body.len() as u16,
                    1 => rng.below(4) as u16,
                    2 => (body.len() as u16).saturating_sub(1 + rng.below(8) as u16),
                    _ => body.len() as u16 + rng.below(3) as u16,
                };
                p.extend_from_slice(&rdlen.to_be_bytes());
                p.extend_from_slice(&body);
            }
            (p, "exotic-rr-types")
        }
        4 => {
            // header only with wild counts + compression pointer games
            let mut p = vec![];
            p.extend_from_slice(&(rng.next_u32() as u16).to_be_bytes());
            p.extend_from_slice(&[0x84, 0x00]);
            for _ in 0..4 {
                p.extend_from_slice(&(*rng.pick(&[0u16, 1, 2, 0xffff, 300])).to_be_bytes());
            }
            for _ in 0..rng.usize(6) {
                match rng.below(4) {
                    0 => p.extend_from_slice(&[0xc0, 0x0c]),                                  // pointer to itself-ish
                    1 => p.extend_from_slice(&[0xc0, (p.len() as u8).wrapping_add(2)]),       // forward pointer
                    2 => p.extend_from_slice(&[63]),                                          // label overrunning
                    _ => p.extend_from_slice(&[4, b'_', b'p', b'2', b'p', 0, 0, 12, 0, 1]),
                }
            }
            (p, "header-games")
        }
        _ => {
            // well-formed response from the independent encoder with hostile TXT contents
            let mut p = vec![];
            let peers = 1 + rng.usize(3);
            let mut adds: Vec<(String, Vec<u8>)> = vec![];
            let mut answers: Vec<(String, Vec<u8>)> = vec![];
            for k in 0..peers {
                let pname = format!("peer{k}{}.local", "x".repeat(rng.usize(40)));
                let mut rd = vec![];
                enc_name(&mut rd, &pname);
                let owner = if rng.chance(4, 5) { "_p2p._udp.local".to_string() } else { "_other._udp.local".to_string() };
                answers.push((owner, rd));
                let pid = util::peer_id_from(rng);
                for _ in 0..rng.usize(5) {
                    let mut rdata = vec![];
                    for _ in 0..rng.usize(4) {
                        let s: Vec<u8> = match rng.below(10) {
                            0 => b"\"".to_vec(),
                            1 => b"\"\"".to_vec(),
                            2 => b"\"dnsaddr=".to_vec(),
                            3 => b"dnsaddr=".to_vec(),
                            4 => {
                                let mut v = b"dnsaddr=".to_vec();
                                let k = rng.usize(40);
                                v.extend_from_slice(&rng.bytes(k));
                                v
                            }
                            5 => format!("dnsaddr=/ip4/1.2.3.4/tcp/1/p2p/{}", util::peer_id_from(rng)).into_bytes(),
                            6 => format!("\"dnsaddr=/dns4/a b/tcp/1/p2p/{pid}\"").into_bytes(),
                            7 => format!("dnsaddr=/ip4/1.2.3.4/tcp/1").into_bytes(),
                            8 => vec![],
                            _ => format!("dnsaddr=/ip4/10.0.0.1/tcp/{}/p2p/{pid}", rng.below(65536)).into_bytes(),
                        };
                        let s = &s[..s.len().min(255)];
                        rdata.push(s.len() as u8);
                        rdata.extend_from_slice(s);
                    }
                    let owner = if rng.chance(4, 5) { pname.clone() } else { "stranger.local".into() };
                    adds.push((owner, rdata));
                }
            }
            p.extend_from_slice(&(rng.next_u32() as u16).to_be_bytes());
            p.extend_from_slice(&[0x84, 0x00, 0, 0]);
            p.extend_from_slice(&(answers.len() as u16).to_be_bytes());
            p.extend_from_slice(&[0, 0]);
            p.extend_from_slice(&(adds.len() as u16).to_be_bytes());
            for (o, rd) in &answers {
                enc_rr(&mut p, o, 12, 1, rng.next_u32(), rd);
            }
            for (o, rd) in &adds {
                enc_rr(&mut p, o, if rng.chance(9, 10) { 16 } else { 1 }, 0x8001, rng.next_u32(), rd);
            }
            (p, "hostile-wellformed")
        }
    }
}

pub fn run(args: &Args) -> i32 {
    let mut check = Check::new(
        args,
        "exploration",
        "(a) PRNG (peer id kind, 0-74 addresses: IPs, empty, /p2p-suffixed, DNS names with odd characters / blanks / quotes / backslashes / non-ASCII, \
         TXT value lengths 228-262 around the 255 limit, counts around the 29-records-per-packet split) -> build -> independent RFC1035 parser + own parser; \
         (b) hostile packets (random, mutated/spliced real packets, header/compression games, well-formed packets with hostile TXT) -> own parser must not panic. \
         non-trivial = round-trip case with >= 1 address that must decode, or hostile packet the own parser accepts as a DNS message; distinct by input hash",
    );
    // `--packet <hex>`: replay one packet through the crate's parser and print what happens
    if let Some(hexs) = args.extra.get("packet") {
        let bytes = vmon::unhex(hexs);
        let from = SocketAddr::new(IpAddr::V4(Ipv4Addr::new(10, 1, 2, 3)), 5353);
        match catch(|| parse_packet(&bytes, from)) {
            Ok(r) => println!("REPLAY {} bytes -> {r:?}", bytes.len()),
            Err(p) => println!("REPLAY {} bytes -> PANIC at {}: {}", bytes.len(), p.location, p.msg),
        }
        return 0;
    }
    let tiny = args.extra.get("budget").map(|s| s == "tiny").unwrap_or(false);
    let n_rt = if tiny { 30 } else { args.tier.pick(6_000u64, 400_000) };
    let from = SocketAddr::new(IpAddr::V4(Ipv4Addr::new(10, 1, 2, 3)), 5353);
    let seeds = std::sync::Mutex::new(Vec::<Vec<u8>>::new());

    vmon::par_cases(&check, n_rt, args.threads, |_i, rng| {
        let c = gen_case(rng);
        let addrs: Vec<Multiaddr> = c.addrs.iter().map(|a| a.addr.clone()).collect();
        let mut sig = Sig::new().bytes(&c.peer.to_bytes()).u64(c.id as u64);
        for a in &addrs {
            sig = sig.bytes(a.as_ref()).u64(0);
        }
        let packets = match catch(|| build_query_response(c.id, c.peer, &addrs, c.ttl)) {
            Ok(p) => p,
            Err(p) => {
                check.violation(format!("panic@{}", p.site()), format!("build_query_response panicked: {}", p.msg), case_json(&c, None));
                check.case(sig.0, true);
                return;
            }
        };
        let mut stats = BTreeMap::new();
        match catch(|| judge_roundtrip(&c, &packets, &mut stats)) {
            Err(p) => check.violation(format!("panic@{}", p.site()), format!("parse_packet panicked on a packet built by the crate: {}", p.msg), case_json(&c, Some(&packets))),
            Ok(Some((s, what))) => check.violation(s, what, case_json(&c, Some(&packets))),
            Ok(None) => {}
        }
        let must = stats.get("addrs_must_decode").copied().unwrap_or(0);
        check.case(sig.0, must > 0);
        for (k, v) in &stats {
            check.count(k, *v);
        }
        check.count("roundtrip_cases", 1);
        check.count("packets_built", packets.len() as u64);
        for a in &c.addrs {
            check.count(&format!("addr_kind_{:?}", a.kind), 1);
        }
        if check.want_sample() && must >= 2 && c.addrs.len() <= 6 {
            check.sample(case_json(&c, Some(&packets)));
        }
        let mut g = seeds.lock().unwrap();
        if g.len() < 64 {
            g.extend(packets.into_iter().take(2));
        }
    });

    // fixed packets of the other builders also feed the mutation pool
    {
        let mut g = seeds.lock().unwrap();
        if let Ok(q) = catch(build_query) {
            g.push(q);
        }
        if let Ok(q) = catch(|| build_service_discovery_response(7, Duration::from_secs(120))) {
            g.push(q);
        }
    }
    let pool = seeds.into_inner().unwrap();
    // the crate's own query / service-discovery packets must be classified as such (sanity of the facade)
    for (i, p) in pool.iter().rev().take(2).enumerate() {
        match catch(|| parse_packet(p, from)) {
            Ok(Ok(Parsed::Query { .. })) | Ok(Ok(Parsed::Response(_))) | Ok(Ok(Parsed::ServiceDiscovery { .. })) | Ok(Ok(Parsed::Other)) => {}
            Ok(Err(e)) => check.violation("own-parser-rejects-own-fixed-packet", format!("fixed packet {i}: {e}"), json!({"packet_hex": vmon::hex(p)})),
            Err(pn) => check.violation(format!("panic@{}", pn.site()), pn.msg.clone(), json!({"packet_hex": vmon::hex(p)})),
        }
    }

    let n_hostile = if tiny { 200 } else { args.tier.pick(300_000u64, 20_000_000) };
    let chunk = 1000u64;
    vmon::par_cases(&check, n_hostile / chunk, args.threads, |_i, rng| {
        let mut accepted = 0u64;
        let mut rejected = 0u64;
        let mut with_peers = 0u64;
        let mut kinds: BTreeMap<&'static str, u64> = BTreeMap::new();
        for _ in 0..chunk {
            let (p, kind) = hostile_packet(rng, &pool);
            *kinds.entry(kind).or_default() += 1;
            match catch(|| parse_packet(&p, from)) {
                Err(pn) => {
                    check.violation(format!("panic@{}", stable_site(&pn)), format!("parse_packet panicked at {}: {}", pn.location, pn.msg), json!({"kind": kind, "packet_hex": vmon::hex(&p)}));
                }
                Ok(Ok(parsed)) => {
                    accepted += 1;
                    check.nontrivial(Sig::new().bytes(&p).0);
                    if let Parsed::Response(peers) = &parsed {
                        if !peers.is_empty() {
                            with_peers += 1;
                        }
                    }
                }
                Ok(Err(_)) => rejected += 1,
            }
        }
        check.cases(chunk);
        check.count("hostile_accepted_as_dns", accepted);
        check.count("hostile_rejected", rejected);
        check.count("hostile_yielding_peers", with_peers);
        for (k, v) in kinds {
            check.count(&format!("hostile_kind_{k}"), v);
        }
    });

    check.note("exhaustive", json!(false));
    check.assume("peer names inside the packets are drawn by the crate from rand::rng() (not seedable): witnesses store the packets' sizes and the first packet");
    util::require_observed(
        &mut check,
        &["addrs_must_decode", "multi_packet_responses", "addr_fits_within_5_of_limit", "addr_too_long_excluded", "hostile_accepted_as_dns", "hostile_rejected", "hostile_yielding_peers"],
    );
    check.finish()
}
