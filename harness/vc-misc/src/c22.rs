//! C22 — `global_only::Transport` never dials non-global IPs, always passes plainly global ones.
//!
//! Real code: `libp2p_core::transport::global_only::Transport::dial` wrapped around a recording inner
//! transport (per worker thread). Observed: `Ok(_)` + inner call with the unchanged address ("passed")
//! or `Err(MultiaddrNotSupported(same address))` without an inner call ("refused").
//!
//! Oracle: the harness' own transcription of the IANA IPv4 / IPv6 Special-Purpose Address Registries
//! with the "Globally Reachable" column (`No` / `Yes` / `NA` = blank or N/A in the registry).
//! * must-refuse: the leading IP lies in a `No` block and in no *more specific* `Yes`/`NA` block
//!   (i.e. the most specific covering `No` block is not overridden by a longer prefix);
//! * must-pass:   the leading IP lies in no special-purpose block at all;
//! * not judged:  everything else (`Yes`/`NA` blocks and their overlaps — the statement is silent);
//! * an address that does not start with ip4/ip6 must be refused.
//!
//! Registry rows that were added after the implementation was written (2023) — or whose presence I
//! cannot confirm offline — live in separate `LATE_*` tables. Every must-refuse violation carries the
//! governing block in its signature (`nonglobal-passed:<block>`), so each late block is an individual,
//! separately recordable finding.
//!
//! IPv4: quick = ±2 around every /8 and /16 boundary and around both edges of every registry block +
//! 2^22 PRNG samples; thorough = the entire 2^32 space (exhaustive:true).
//! IPv6: first/last/outside neighbours of every registry prefix, every one-bit neighbour of every
//! prefix, every value of segment 0 with 4 tails, every value of segment 1 under `2001:`, PRNG tails.
use std::{
    cell::{Cell, RefCell},
    future::{Ready, ready},
    io,
    net::{Ipv4Addr, Ipv6Addr},
    pin::Pin,
    rc::Rc,
    task::{Context, Poll},
};

use libp2p_core::{
    Endpoint, Multiaddr, Transport,
    multiaddr::Protocol,
    transport::{DialOpts, ListenerId, PortUse, TransportError, TransportEvent, global_only},
};
use vmon::{Args, Check, Rng, Sig, catch, json};

use crate::util;

// ---------------------------------------------------------------------------------------------
// Registry transcription
// ---------------------------------------------------------------------------------------------

#[derive(Clone, Copy, PartialEq, Eq, Debug)]
enum Reach {
    No,
    Yes,
    /// "N/A" or blank in the registry (deprecated / terminated / protocol-dependent)
    NA,
}
use Reach::*;

/// (prefix text, globally reachable, registry name)
const V4_BASE: &[(&str, Reach, &str)] = &[
    ("0.0.0.0/8", No, "This network"),
    ("0.0.0.0/32", No, "This host on this network"),
    ("10.0.0.0/8", No, "Private-Use"),
    ("100.64.0.0/10", No, "Shared Address Space"),
    ("127.0.0.0/8", No, "Loopback"),
    ("169.254.0.0/16", No, "Link Local"),
    ("172.16.0.0/12", No, "Private-Use"),
    ("192.0.0.0/24", No, "IETF Protocol Assignments"),
    ("192.0.0.0/29", No, "IPv4 Service Continuity Prefix"),
    ("192.0.0.8/32", No, "IPv4 dummy address"),
    ("192.0.0.9/32", Yes, "Port Control Protocol Anycast"),
    ("192.0.0.10/32", Yes, "Traversal Using Relays around NAT Anycast"),
    ("192.0.0.170/32", No, "NAT64/DNS64 Discovery"),
    ("192.0.0.171/32", No, "NAT64/DNS64 Discovery"),
    ("192.0.2.0/24", No, "Documentation (TEST-NET-1)"),
    ("192.31.196.0/24", Yes, "AS112-v4"),
    ("192.52.193.0/24", Yes, "AMT"),
    ("192.88.99.0/24", NA, "Deprecated (6to4 Relay Anycast)"),
    ("192.168.0.0/16", No, "Private-Use"),
    ("192.175.48.0/24", Yes, "Direct Delegation AS112 Service"),
    ("198.18.0.0/15", No, "Benchmarking"),
    ("198.51.100.0/24", No, "Documentation (TEST-NET-2)"),
    ("203.0.113.0/24", No, "Documentation (TEST-NET-3)"),
    ("240.0.0.0/4", No, "Reserved"),
    ("255.255.255.255/32", No, "Limited Broadcast"),
];
/// Rows added after 2023 or not confirmable offline.
const V4_LATE: &[(&str, Reach, &str)] = &[("192.88.99.2/32", No, "6a44-relay anycast address (RFC 6751; row date not confirmable offline)")];

const V6_BASE: &[(&str, Reach, &str)] = &[
    ("::1/128", No, "Loopback Address"),
    ("::/128", No, "Unspecified Address"),
    ("::ffff:0:0/96", No, "IPv4-mapped Address"),
    ("64:ff9b::/96", Yes, "IPv4-IPv6 Translat."),
    ("64:ff9b:1::/48", No, "IPv4-IPv6 Translat. (local use)"),
    ("100::/64", No, "Discard-Only Address Block"),
    ("2001::/23", No, "IETF Protocol Assignments"),
    ("2001::/32", NA, "TEREDO"),
    ("2001:1::1/128", Yes, "Port Control Protocol Anycast"),
    ("2001:1::2/128", Yes, "Traversal Using Relays around NAT Anycast"),
    ("2001:2::/48", No, "Benchmarking"),
    ("2001:3::/32", Yes, "AMT"),
    ("2001:4:112::/48", Yes, "AS112-v6"),
    ("2001:10::/28", NA, "Deprecated (previously ORCHID)"),
    ("2001:20::/28", Yes, "ORCHIDv2"),
    ("2001:30::/28", Yes, "Drone Remote ID Protocol Entity Tags (DETs) Prefix"),
    ("2001:db8::/32", No, "Documentation"),
    ("2002::/16", NA, "6to4"),
    ("2620:4f:8000::/48", Yes, "Direct Delegation AS112 Service"),
    ("fc00::/7", No, "Unique-Local"),
    ("fe80::/10", No, "Link-Local Unicast"),
];
/// Rows added after 2023 (RFC 9665 / 9780 / 9637 / 9602).
const V6_LATE: &[(&str, Reach, &str)] = &[
    ("2001:1::3/128", Yes, "DNS-SD Service Registration Protocol Anycast (2024)"),
    ("100:0:0:1::/64", No, "Dummy IPv6 Prefix (2025)"),
    ("3fff::/20", No, "Documentation (2024)"),
    ("5f00::/16", No, "Segment Routing (SRv6) SIDs (2024)"),
];

#[derive(Clone, Debug)]
struct Block {
    text: &'static str,
    net: u128,
    len: u32,
    bits: u32,
    reach: Reach,
    late: bool,
}
impl Block {
    fn mask(&self) -> u128 {
        if self.len == 0 { 0 } else { (!0u128 >> (128 - self.bits)) & !((1u128 << (self.bits - self.len)) - 1) }
    }
    fn contains(&self, a: u128) -> bool {
        a & self.mask() == self.net
    }
    fn first(&self) -> u128 {
        self.net
    }
    fn last(&self) -> u128 {
        self.net | ((1u128 << (self.bits - self.len)) - 1)
    }
}

fn parse_table(rows: &[(&'static str, Reach, &'static str)], late: bool, v6: bool) -> Vec<Block> {
    rows.iter()
        .map(|(t, r, _)| {
            let (ip, len) = t.split_once('/').expect("prefix has /len");
            let len: u32 = len.parse().unwrap();
            let (net, bits) = if v6 { (u128::from(ip.parse::<Ipv6Addr>().unwrap()), 128) } else { (u32::from(ip.parse::<Ipv4Addr>().unwrap()) as u128, 32) };
            let b = Block { text: t, net, len, bits, reach: *r, late };
            assert_eq!(net & b.mask(), net, "registry row {t} has host bits set");
            b
        })
        .collect()
}

struct Registry {
    v4: Vec<Block>,
    v6: Vec<Block>,
}
impl Registry {
    fn new() -> Registry {
        let mut v4 = parse_table(V4_BASE, false, false);
        v4.extend(parse_table(V4_LATE, true, false));
        let mut v6 = parse_table(V6_BASE, false, true);
        v6.extend(parse_table(V6_LATE, true, true));
        Registry { v4, v6 }
    }
}

#[derive(Clone, Copy, PartialEq, Eq, Debug)]
enum Want {
    /// index of the governing `No` block
    MustRefuse(usize),
    MustPass,
    NotJudged,
}

/// The statement's rule, evaluated on a table.
fn classify(table: &[Block], a: u128) -> Want {
    let mut any = false;
    let mut best_no: Option<usize> = None;
    for (i, b) in table.iter().enumerate() {
        if b.contains(a) {
            any = true;
            if b.reach == No && best_no.is_none_or(|j| table[j].len < b.len) {
                best_no = Some(i);
            }
        }
    }
    if !any {
        return Want::MustPass;
    }
    match best_no {
        None => Want::NotJudged,
        Some(i) => {
            let overridden = table.iter().any(|b| b.reach != No && b.len > table[i].len && b.contains(a));
            if overridden { Want::NotJudged } else { Want::MustRefuse(i) }
        }
    }
}

// ---------------------------------------------------------------------------------------------
// Recording inner transport
// ---------------------------------------------------------------------------------------------

#[derive(Clone, Default)]
struct Rec {
    calls: Rc<Cell<u64>>,
    last: Rc<RefCell<Option<Multiaddr>>>,
}
impl Transport for Rec {
    type Output = ();
    type Error = io::Error;
    type ListenerUpgrade = Ready<Result<(), io::Error>>;
    type Dial = Ready<Result<(), io::Error>>;
    fn listen_on(&mut self, _: ListenerId, _: Multiaddr) -> Result<(), TransportError<io::Error>> {
        Ok(())
    }
    fn remove_listener(&mut self, _: ListenerId) -> bool {
        false
    }
    fn dial(&mut self, addr: Multiaddr, _: DialOpts) -> Result<Self::Dial, TransportError<io::Error>> {
        self.calls.set(self.calls.get() + 1);
        *self.last.borrow_mut() = Some(addr);
        Ok(ready(Ok(())))
    }
    fn poll(self: Pin<&mut Self>, _: &mut Context<'_>) -> Poll<TransportEvent<Self::ListenerUpgrade, io::Error>> {
        Poll::Pending
    }
}

#[derive(Clone, Copy, PartialEq, Eq, Debug)]
enum Got {
    Passed,
    Refused,
}

struct Rig {
    rec: Rec,
    t: global_only::Transport<Rec>,
}
impl Rig {
    fn new() -> Rig {
        let rec = Rec::default();
        Rig { t: global_only::Transport::new(rec.clone()), rec }
    }
    /// Dial through the real wrapper. Err((signature, what)) if the outcome is not one of the two
    /// well-formed shapes.
    fn dial(&mut self, addr: &Multiaddr) -> Result<Got, (String, String)> {
        let before = self.rec.calls.get();
        let r = self.t.dial(addr.clone(), DialOpts { role: Endpoint::Dialer, port_use: PortUse::Reuse });
        let called = self.rec.calls.get() - before;
        match r {
            Ok(_) => {
                if called != 1 {
                    return Err(("ok-without-single-inner-dial".into(), format!("{addr}: Ok but inner dial calls = {called}")));
                }
                if self.rec.last.borrow().as_ref() != Some(addr) {
                    return Err(("passed-address-altered".into(), format!("{addr}: inner saw {:?}", self.rec.last.borrow())));
                }
                Ok(Got::Passed)
            }
            Err(TransportError::MultiaddrNotSupported(a)) => {
                if called != 0 {
                    return Err(("inner-dialed-on-refusal".into(), format!("{addr}: refused but inner dial calls = {called}")));
                }
                if &a != addr {
                    return Err(("refusal-names-other-address".into(), format!("{addr}: MultiaddrNotSupported({a})")));
                }
                Ok(Got::Refused)
            }
            Err(TransportError::Other(e)) => Err(("refusal-wrong-error".into(), format!("{addr}: TransportError::Other({e})"))),
        }
    }
}

// ---------------------------------------------------------------------------------------------
// Judging
// ---------------------------------------------------------------------------------------------

#[derive(Default)]
struct Tally {
    must_refuse: u64,
    must_pass: u64,
    not_judged: u64,
    not_judged_passed: u64,
    sigs: Vec<u64>,
}
impl Tally {
    fn push_sig(&mut self, s: u64) {
        if self.sigs.last() != Some(&s) {
            self.sigs.push(s);
        }
    }
    fn flush(&mut self, check: &Check, fam: &str) {
        check.count(&format!("{fam}_must_refuse_checked"), self.must_refuse);
        check.count(&format!("{fam}_must_pass_checked"), self.must_pass);
        check.count(&format!("{fam}_not_judged"), self.not_judged);
        check.count(&format!("{fam}_not_judged_passed"), self.not_judged_passed);
        check.cases(self.must_refuse + self.must_pass + self.not_judged);
        self.sigs.sort_unstable();
        self.sigs.dedup();
        for s in &self.sigs {
            check.nontrivial(*s);
        }
        *self = Tally::default();
    }
}

fn judge(check: &Check, table: &[Block], tally: &mut Tally, a: u128, v6: bool, addr: &Multiaddr, got: Got) {
    let want = classify(table, a);
    // abstraction of the case: (family, governing block | /8 | seg0, verdict class)
    let bucket = if v6 { (a >> 112) as u64 } else { (a >> 24) as u64 };
    match want {
        Want::MustRefuse(i) => {
            tally.must_refuse += 1;
            tally.push_sig(Sig::new().u64(v6 as u64).u64(1).str(table[i].text).u64(bucket).0);
            if got != Got::Refused {
                let b = &table[i];
                check.violation(
                    format!("nonglobal-passed:{}", b.text),
                    format!("{addr} was passed to the inner transport, but {} is registered as not globally reachable{}", b.text, if b.late { " (late registry row)" } else { "" }),
                    json!({"address": addr.to_string(), "block": b.text, "late_row": b.late}),
                );
            }
        }
        Want::MustPass => {
            tally.must_pass += 1;
            tally.push_sig(Sig::new().u64(v6 as u64).u64(2).u64(bucket).0);
            if got != Got::Passed {
                let cls = if v6 { format!("{:x}::/16", bucket) } else { format!("{}.0.0.0/8", bucket) };
                check.violation(
                    format!("global-refused:{cls}"),
                    format!("{addr} lies outside every special-purpose block but was refused"),
                    json!({"address": addr.to_string()}),
                );
            }
        }
        Want::NotJudged => {
            tally.not_judged += 1;
            if got == Got::Passed {
                tally.not_judged_passed += 1;
            }
        }
    }
}

const V4_TAILS: &[&str] = &["", "/tcp/4001", "/udp/4001/quic-v1", "/tcp/443/tls/ws/p2p-circuit/ip4/10.0.0.1/tcp/1"];
const V6_TAILS: &[&str] = &["", "/tcp/4001", "/udp/4001/quic-v1", "/udp/1/webrtc-direct/p2p-circuit/ip6/fe80::1/tcp/1"];

fn tails(list: &[&str]) -> Vec<Multiaddr> {
    list.iter().map(|s| s.parse().expect("tail parses")).collect()
}

fn mk(head: Protocol<'_>, tail: &Multiaddr) -> Multiaddr {
    let mut m = Multiaddr::empty().with(head);
    for p in tail.iter() {
        m.push(p);
    }
    m
}

fn test_v4(check: &Check, reg: &Registry, rig: &mut Rig, tally: &mut Tally, a: u32, tail: &Multiaddr) {
    let addr = mk(Protocol::Ip4(Ipv4Addr::from(a)), tail);
    match rig.dial(&addr) {
        Ok(got) => judge(check, &reg.v4, tally, a as u128, false, &addr, got),
        Err((s, w)) => check.violation(s, w, json!({"address": addr.to_string()})),
    }
}
fn test_v6(check: &Check, reg: &Registry, rig: &mut Rig, tally: &mut Tally, a: u128, tail: &Multiaddr) {
    let addr = mk(Protocol::Ip6(Ipv6Addr::from(a)), tail);
    match rig.dial(&addr) {
        Ok(got) => judge(check, &reg.v6, tally, a, true, &addr, got),
        Err((s, w)) => check.violation(s, w, json!({"address": addr.to_string()})),
    }
}

fn non_ip_heads() -> Vec<Multiaddr> {
    let mut v: Vec<Multiaddr> = vec![Multiaddr::empty()];
    for s in [
        "/dns/example.com/tcp/1", "/dns4/example.com/tcp/1", "/dns6/example.com/tcp/1", "/dnsaddr/bootstrap.libp2p.io",
        "/dns4/8.8.8.8/tcp/1", "/dns/localhost/tcp/1", "/tcp/4001", "/udp/4001/quic-v1", "/memory/42", "/unix/tmp%2Fsock",
        "/p2p/12D3KooWDpJ7As7BWAwRMfu1VU2WCqNjvq387JEYKDBj4kx6nXTN", "/p2p-circuit", "/quic-v1", "/ws", "/wss", "/tls", "/http", "/https",
        "/ip6zone/eth0/ip6/fe80::1/tcp/1", "/ip6zone/x/ip6/2a00::1", "/tcp/1/ip4/8.8.8.8", "/dns4/example.com/ip4/8.8.8.8/tcp/1",
        "/p2p-circuit/ip4/8.8.8.8/tcp/1", "/memory/1/ip6/2a00::1", "/sni/example.com", "/webrtc-direct", "/webtransport", "/noise", "/ipcidr/24",
    ] {
        v.push(s.parse().unwrap_or_else(|e| panic!("{s}: {e}")));
    }
    v
}

pub fn run(args: &Args) -> i32 {
    let mut check = Check::new(
        args,
        "exploration",
        "IPv4: thorough = every one of the 2^32 addresses (tails cycled); quick = +-2 around every /8 and /16 boundary and both edges of every \
         registry block + 2^22 PRNG samples. IPv6: edges/one-bit neighbours of every registry prefix, all 65536 segment-0 values x 4 tails, all \
         segment-1 values under 2001:, PRNG. Non-IP heads: fixed list. non-trivial = address that is judged (must-refuse or must-pass); \
         distinct by (family, governing registry block or none, leading /8 resp. /16)",
    );
    let reg = Registry::new();
    let thorough = args.tier == vmon::Tier::Thorough;
    let tiny = args.extra.get("budget").map(|s| s == "tiny").unwrap_or(false);

    // ---- self-check of the transcription against a handful of facts that need no registry access
    // (documentation ranges of RFC 5737 / 3849, RFC 1918, loopback): guards against typos in the tables.
    for (ip, want_refuse) in [("10.1.2.3", true), ("192.0.2.55", true), ("127.0.0.1", true), ("8.8.8.8", false), ("1.1.1.1", false), ("192.0.0.9", false)] {
        let a = u32::from(ip.parse::<Ipv4Addr>().unwrap()) as u128;
        let c = classify(&reg.v4, a);
        assert_eq!(matches!(c, Want::MustRefuse(_)), want_refuse, "transcription self-check {ip}: {c:?}");
    }
    for (ip, want) in [("2001:db8::1", 1), ("::1", 1), ("fe80::1", 1), ("2a00:1450::1", 2), ("2001:1::1", 0), ("2001:0:1::", 0), ("2001:1ff::", 1)] {
        let a = u128::from(ip.parse::<Ipv6Addr>().unwrap());
        let c = classify(&reg.v6, a);
        let k = match c {
            Want::MustRefuse(_) => 1,
            Want::MustPass => 2,
            Want::NotJudged => 0,
        };
        assert_eq!(k, want, "transcription self-check {ip}: {c:?}");
    }

    // ---- non-IP heads (single thread)
    {
        let mut rig = Rig::new();
        for addr in non_ip_heads() {
            let name = addr.iter().next().map(|p| p.tag().to_string()).unwrap_or_else(|| "empty".into());
            match catch(|| rig.dial(&addr)) {
                Err(p) => check.violation(format!("panic@{}", p.site()), p.msg.clone(), json!({"address": addr.to_string()})),
                Ok(Err((s, w))) => check.violation(s, w, json!({"address": addr.to_string()})),
                Ok(Ok(got)) => {
                    if got != Got::Refused {
                        check.violation(format!("non-ip-head-passed:{name}"), format!("{addr} does not start with an IP address but was passed on"), json!({"address": addr.to_string()}));
                    }
                }
            }
            check.case(Sig::new().str("nonip").bytes(addr.as_ref()).0, true);
            check.count("non_ip_heads_checked", 1);
        }
    }

    // ---- IPv4
    let v4_tails = tails(V4_TAILS);
    let v4_tail_bytes: Vec<Vec<u8>> = v4_tails.iter().map(|t| t.to_vec()).collect();
    if thorough && !tiny {
        // exhaustive: 65536 chunks of 65536 addresses
        vmon::par_cases(&check, 65536, args.threads, |chunk, _rng| {
            let mut rig = Rig::new();
            let mut tally = Tally::default();
            let base = (chunk as u32) << 16;
            // Only registry rows that intersect this /16 can cover one of its addresses; the per-address
            // rule is then evaluated on those rows (sound restriction, big speed-up for the 2^32 sweep).
            let local: Vec<Block> = reg.v4.iter().filter(|b| b.first() <= (base | 0xffff) as u128 && b.last() >= base as u128).cloned().collect();
            let r = catch(|| {
                for lo in 0..=0xffffu32 {
                    let a = base | lo;
                    // tails cycled so that every tail is seen in every /16
                    let k = (a % 7) as usize;
                    let tail = &v4_tail_bytes[if k < 4 { k } else { 0 }];
                    let mut bytes = Vec::with_capacity(5 + tail.len());
                    bytes.push(0x04);
                    bytes.extend_from_slice(&a.to_be_bytes());
                    bytes.extend_from_slice(tail);
                    let addr = Multiaddr::try_from(bytes).expect("ip4 multiaddr bytes");
                    match rig.dial(&addr) {
                        Ok(got) => judge(&check, &local, &mut tally, a as u128, false, &addr, got),
                        Err((s, w)) => check.violation(s, w, json!({"address": addr.to_string()})),
                    }
                }
            });
            if let Err(p) = r {
                check.violation(format!("panic@{}", p.site()), p.msg.clone(), json!({"chunk_base": Ipv4Addr::from(base).to_string()}));
            }
            tally.flush(&check, "ipv4");
        });
        check.note("ipv4_exhaustive", json!(true));
    } else {
        // structured edges
        let mut points: Vec<u32> = vec![];
        let mut edge = |x: u64| {
            for d in -2i64..=2 {
                let v = x as i64 + d;
                if (0..=0xffff_ffffi64).contains(&v) {
                    points.push(v as u32);
                }
            }
        };
        let step = if tiny { 1u64 << 24 } else { 1u64 << 16 };
        let mut x = 0u64;
        while x <= 1u64 << 32 {
            edge(x);
            x += step;
        }
        for b in &reg.v4 {
            edge(b.first() as u64);
            edge(b.last() as u64 + 1);
        }
        points.sort_unstable();
        points.dedup();
        check.count("ipv4_structured_points", points.len() as u64);
        let chunks: Vec<&[u32]> = points.chunks(4096).collect();
        vmon::par_cases(&check, chunks.len() as u64, args.threads, |i, _rng| {
            let mut rig = Rig::new();
            let mut tally = Tally::default();
            let r = catch(|| {
                for (k, a) in chunks[i as usize].iter().enumerate() {
                    test_v4(&check, &reg, &mut rig, &mut tally, *a, &v4_tails[k % 4]);
                }
            });
            if let Err(p) = r {
                check.violation(format!("panic@{}", p.site()), p.msg.clone(), json!({"chunk": i}));
            }
            tally.flush(&check, "ipv4");
        });
        // PRNG samples
        let n_chunks = if tiny { 2 } else { 1024 };
        vmon::par_cases(&check, n_chunks, args.threads, |_i, rng| {
            let mut rig = Rig::new();
            let mut tally = Tally::default();
            let r = catch(|| {
                for k in 0..4096usize {
                    test_v4(&check, &reg, &mut rig, &mut tally, rng.next_u32(), &v4_tails[k % 4]);
                }
            });
            if let Err(p) = r {
                check.violation(format!("panic@{}", p.site()), p.msg.clone(), json!({}));
            }
            tally.flush(&check, "ipv4");
        });
        check.note("ipv4_exhaustive", json!(false));
    }

    // ---- IPv6 structured
    let v6_tails = tails(V6_TAILS);
    {
        let mut pts: Vec<u128> = vec![];
        let mut seed_rng = Rng::for_case(args.seed, 0xC22);
        for b in &reg.v6 {
            let (f, l) = (b.first(), b.last());
            for d in 0..3u128 {
                pts.push(f.wrapping_add(d));
                pts.push(l.wrapping_sub(d));
                pts.push(f.wrapping_sub(d + 1));
                pts.push(l.wrapping_add(d + 1));
            }
            // one-bit neighbours of the prefix, with the block's own first/last/PRNG host part
            for bit in 0..b.len {
                let flipped = f ^ (1u128 << (127 - bit));
                pts.push(flipped);
                pts.push(flipped | (l ^ f));
                pts.push(flipped | ((seed_rng.next_u64() as u128) << 64 | seed_rng.next_u64() as u128) & (l ^ f));
            }
            // PRNG members of the block
            for _ in 0..64 {
                let r = (seed_rng.next_u64() as u128) << 64 | seed_rng.next_u64() as u128;
                pts.push(f | (r & (l ^ f)));
            }
        }
        pts.sort_unstable();
        pts.dedup();
        check.count("ipv6_structured_points", pts.len() as u64);
        let mut rig = Rig::new();
        let mut tally = Tally::default();
        let r = catch(|| {
            for (k, a) in pts.iter().enumerate() {
                for t in 0..4 {
                    if t == 0 || (k + t) % 4 == 0 {
                        test_v6(&check, &reg, &mut rig, &mut tally, *a, &v6_tails[t]);
                    }
                }
            }
        });
        if let Err(p) = r {
            check.violation(format!("panic@{}", p.site()), p.msg.clone(), json!({"phase": "ipv6-structured"}));
        }
        tally.flush(&check, "ipv6");
    }
    // every segment-0 value x 4 tails, every segment-1 value under 2001:
    {
        let n = if tiny { 4 } else { 256 };
        vmon::par_cases(&check, n, args.threads, |i, rng| {
            let mut rig = Rig::new();
            let mut tally = Tally::default();
            let r = catch(|| {
                let span = 65536 / n;
                for s in (i * span)..((i + 1) * span) {
                    let s = s as u128;
                    let host_tails: [u128; 4] = [0, 1, !0u128 >> 16, (rng.next_u64() as u128) << 48 | rng.next_u64() as u128 & (!0u128 >> 16)];
                    for (k, h) in host_tails.iter().enumerate() {
                        test_v6(&check, &reg, &mut rig, &mut tally, (s << 112) | (h & (!0u128 >> 16)), &v6_tails[k]);
                    }
                    // 2001:ssss::/32 and neighbours
                    let under = (0x2001u128 << 112) | (s << 96);
                    test_v6(&check, &reg, &mut rig, &mut tally, under, &v6_tails[0]);
                    test_v6(&check, &reg, &mut rig, &mut tally, under | 1, &v6_tails[1]);
                    test_v6(&check, &reg, &mut rig, &mut tally, under | (!0u128 >> 32), &v6_tails[2]);
                    test_v6(&check, &reg, &mut rig, &mut tally, under | ((rng.next_u64() as u128) << 32 | rng.next_u32() as u128) & (!0u128 >> 32), &v6_tails[3]);
                }
            });
            if let Err(p) = r {
                check.violation(format!("panic@{}", p.site()), p.msg.clone(), json!({"phase": "ipv6-seg0", "chunk": i}));
            }
            tally.flush(&check, "ipv6");
        });
    }
    // PRNG: interesting leading segments with random rest
    {
        let n = if tiny { 2 } else { args.tier.pick(256u64, 16384) };
        let heads: Vec<u16> = vec![0, 0x64, 0x100, 0x2001, 0x2002, 0x2620, 0x3ffe, 0x3fff, 0x4000, 0x5f00, 0x5eff, 0x5f01, 0xfc00, 0xfd00, 0xfe80, 0xfebf, 0xfec0, 0xff02, 0x2a00, 0x2400];
        vmon::par_cases(&check, n, args.threads, |_i, rng| {
            let mut rig = Rig::new();
            let mut tally = Tally::default();
            let r = catch(|| {
                for k in 0..4096usize {
                    let mut a = (rng.next_u64() as u128) << 64 | rng.next_u64() as u128;
                    if rng.chance(3, 4) {
                        a = (a & (!0u128 >> 16)) | ((*rng.pick(&heads) as u128) << 112);
                    }
                    // sparse segments: zero out random 16-bit groups so that ::-heavy shapes appear
                    for g in 1..8 {
                        if rng.chance(1, 3) {
                            a &= !(0xffffu128 << (112 - 16 * g));
                        }
                    }
                    test_v6(&check, &reg, &mut rig, &mut tally, a, &v6_tails[k % 4]);
                }
            });
            if let Err(p) = r {
                check.violation(format!("panic@{}", p.site()), p.msg.clone(), json!({"phase": "ipv6-prng"}));
            }
            tally.flush(&check, "ipv6");
        });
    }

    // samples: a few real judged cases
    {
        let mut rig = Rig::new();
        for s in ["/ip4/192.168.1.1/tcp/4001", "/ip4/8.8.8.8/udp/4001/quic-v1", "/ip6/2001:db8::1/tcp/1", "/ip6/2a00:1450::1/tcp/443", "/ip6/3fff::1/tcp/1"] {
            let addr: Multiaddr = s.parse().unwrap();
            let got = rig.dial(&addr).ok();
            let want = match addr.iter().next() {
                Some(Protocol::Ip4(a)) => classify(&reg.v4, u32::from(a) as u128),
                Some(Protocol::Ip6(a)) => classify(&reg.v6, u128::from(a)),
                _ => Want::NotJudged,
            };
            check.sample(json!({"address": s, "observed": format!("{got:?}"), "oracle": format!("{want:?}")}));
        }
    }
    check.note("exhaustive", json!(thorough && !tiny));
    check.note("registry_rows", json!({"ipv4_base": V4_BASE.len(), "ipv4_late": V4_LATE.len(), "ipv6_base": V6_BASE.len(), "ipv6_late": V6_LATE.len()}));
    check.assume("the IANA special-purpose registries are as transcribed in this module (offline; late rows kept apart and reported per block)");
    util::require_observed(&mut check, &["ipv4_must_refuse_checked", "ipv4_must_pass_checked", "ipv6_must_refuse_checked", "ipv6_must_pass_checked", "non_ip_heads_checked"]);
    check.finish()
}
