//! C23 — DNS transport: bounded lookups / dial attempts, no unresolved component leaks, dnsaddr
//! suffix rule, no panic on empty or partial answers.
//!
//! Real code: `libp2p_dns::Transport::dial` (the whole `do_dial` loop and `resolve()`), constructed
//! through the cfg(libp2p_verif) hook `Transport::verif_with_resolver(inner, resolver)` with
//! * a **mock `Resolver`** (the trait is public, doc-hidden) answering from a generated record graph:
//!   `/dnsaddr` TXT records that point at each other (cycles), fan-out above 16, A/AAAA answers with
//!   0..20 addresses, *empty* answers (`Ok` with no records), *partial* answers (CNAME-only, records of
//!   the wrong family), resolver errors, garbage TXT (no `dnsaddr=` prefix, invalid UTF-8, unparsable
//!   multiaddr, TXT with no character-string, several character-strings), futures that return
//!   `Pending` first;
//! * a **recording inner transport** whose per-call outcome is scripted (refuse with
//!   `MultiaddrNotSupported`, refuse with an error, accept and fail, accept and fail after `Pending`,
//!   accept and succeed, accept and hang).
//!
//! Oracle (from the statement), per dial:
//! * resolver calls ≤ 32;
//! * inner dial attempts that the inner transport accepted (returned a future) ≤ 16
//!   (calls the inner transport *refused* are counted in the evidence but not judged — the statement's
//!   "attempt" is read the way the code documents it);
//! * no address handed to the inner transport contains dns/dns4/dns6/dnsaddr;
//! * if the first DNS component of the dialed address is `/dnsaddr`, every address handed to the inner
//!   transport ends (component-wise) with the components that follow that `/dnsaddr` component;
//! * no panic, whatever the resolver returns.
//!
//! Not judged: which of several candidates is dialed first, error values, that a matching record
//! *is* dialed (the run is inconclusive if no dnsaddr-derived inner dial is ever observed), dialed
//! addresses when the suffix itself contains DNS components (not generated).
use std::{
    collections::HashMap,
    future::Future,
    io,
    net::{Ipv4Addr, Ipv6Addr},
    pin::Pin,
    str::FromStr,
    sync::{Arc, Mutex},
    task::{Context, Poll},
};

use futures::future::BoxFuture;
use hickory_resolver::{
    lookup::Lookup,
    lookup_ip::LookupIp,
    net::{NetError, NoRecords},
    proto::{
        op::{Query, ResponseCode},
        rr::{
            Name, RData, Record, RecordType,
            rdata::{A, AAAA, CNAME, TXT},
        },
    },
};
use libp2p_core::{
    Endpoint, Multiaddr, Transport,
    multiaddr::Protocol,
    transport::{DialOpts, ListenerId, PortUse, TransportError, TransportEvent},
};
use libp2p_identity::PeerId;
use vmon::{Args, Check, Rng, Sig, Value, catch, json};

use crate::util;

// ---------------------------------------------------------------------------------------------
// Mock resolver
// ---------------------------------------------------------------------------------------------

#[derive(Clone, Debug)]
enum Rec {
    A(Ipv4Addr),
    Aaaa(Ipv6Addr),
    Cname(String),
    /// character-strings of one TXT record
    Txt(Vec<Vec<u8>>),
}
#[derive(Clone, Debug)]
enum Ans {
    NoRecords,
    ErrMsg,
    ErrIo,
    Ok(Vec<Rec>),
}
#[derive(Clone, Debug, Default)]
struct Zone {
    /// keyed by (kind, name); kind: "ip" | "a" | "aaaa" | "txt"
    m: HashMap<(&'static str, String), Ans>,
}

struct MockState {
    zone: Zone,
    log: Mutex<Vec<(&'static str, String)>>,
    /// beyond this many calls the resolver hangs (the oracle has long flagged > 32 by then)
    hard_cap: usize,
    pend: Mutex<Rng>,
}
#[derive(Clone)]
struct MockResolver(Arc<MockState>);

struct YieldOnce(bool);
impl Future for YieldOnce {
    type Output = ();
    fn poll(mut self: Pin<&mut Self>, cx: &mut Context<'_>) -> Poll<()> {
        if self.0 {
            self.0 = false;
            cx.waker().wake_by_ref();
            Poll::Pending
        } else {
            Poll::Ready(())
        }
    }
}

fn dns_name(s: &str) -> Name {
    Name::from_str(&format!("{}.", s.trim_end_matches('.'))).unwrap_or_else(|_| Name::root())
}

impl MockResolver {
    fn answer(&self, kind: &'static str, name: String, rtype: RecordType) -> impl Future<Output = Result<Lookup, NetError>> + Send + use<> {
        let st = self.0.clone();
        async move {
            let (n, yield_first) = {
                let mut log = st.log.lock().unwrap();
                log.push((kind, name.clone()));
                (log.len(), st.pend.lock().unwrap().chance(1, 3))
            };
            if n > st.hard_cap {
                futures::future::pending::<()>().await;
            }
            YieldOnce(yield_first).await;
            let q = Query::query(dns_name(&name), rtype);
            match st.zone.m.get(&(kind, name.clone())) {
                None | Some(Ans::NoRecords) => Err(NetError::from(NoRecords::new(q, ResponseCode::NXDomain))),
                Some(Ans::ErrMsg) => Err(NetError::from("mock resolver: request timed out")),
                Some(Ans::ErrIo) => Err(NetError::from(io::Error::new(io::ErrorKind::ConnectionRefused, "mock resolver: refused"))),
                Some(Ans::Ok(recs)) => {
                    let owner = dns_name(&name);
                    let records: Vec<Record> = recs
                        .iter()
                        .map(|r| {
                            let rd = match r {
                                Rec::A(ip) => RData::A(A(*ip)),
                                Rec::Aaaa(ip) => RData::AAAA(AAAA(*ip)),
                                Rec::Cname(t) => RData::CNAME(CNAME(dns_name(t))),
                                Rec::Txt(strings) => RData::TXT(TXT::from_bytes(strings.iter().map(|s| s.as_slice()).collect())),
                            };
                            Record::from_rdata(owner.clone(), 60, rd)
                        })
                        .collect();
                    Ok(Lookup::new_with_max_ttl(q, records))
                }
            }
        }
    }
}

impl libp2p_dns::Resolver for MockResolver {
    fn lookup_ip(&self, name: String) -> impl Future<Output = Result<LookupIp, NetError>> + Send {
        let f = self.answer("ip", name, RecordType::A);
        async move { f.await.map(LookupIp::from) }
    }
    fn ipv4_lookup(&self, name: String) -> impl Future<Output = Result<Lookup, NetError>> + Send {
        self.answer("a", name, RecordType::A)
    }
    fn ipv6_lookup(&self, name: String) -> impl Future<Output = Result<Lookup, NetError>> + Send {
        self.answer("aaaa", name, RecordType::AAAA)
    }
    fn txt_lookup(&self, name: String) -> impl Future<Output = Result<Lookup, NetError>> + Send {
        self.answer("txt", name, RecordType::TXT)
    }
}

// ---------------------------------------------------------------------------------------------
// Recording inner transport
// ---------------------------------------------------------------------------------------------

#[derive(Clone, Copy, Debug, PartialEq, Eq)]
enum Outcome {
    Unsupported,
    OtherErr,
    FailFut,
    FailAfterPending,
    Succeed,
    Hang,
}

struct InnerState {
    calls: Vec<(Multiaddr, Outcome)>,
    script: Vec<Outcome>,
    default: Outcome,
    hard_cap: usize,
}
#[derive(Clone)]
struct RecT(Arc<Mutex<InnerState>>);

impl Transport for RecT {
    type Output = ();
    type Error = io::Error;
    type ListenerUpgrade = BoxFuture<'static, Result<(), io::Error>>;
    type Dial = BoxFuture<'static, Result<(), io::Error>>;
    fn listen_on(&mut self, _: ListenerId, a: Multiaddr) -> Result<(), TransportError<io::Error>> {
        Err(TransportError::MultiaddrNotSupported(a))
    }
    fn remove_listener(&mut self, _: ListenerId) -> bool {
        false
    }
    fn dial(&mut self, addr: Multiaddr, _: DialOpts) -> Result<Self::Dial, TransportError<io::Error>> {
        let mut st = self.0.lock().unwrap();
        let k = st.calls.len();
        let mut o = st.script.get(k).copied().unwrap_or(st.default);
        let accepted = st.calls.iter().filter(|c| !matches!(c.1, Outcome::Unsupported | Outcome::OtherErr)).count();
        if accepted >= st.hard_cap || k >= 4 * st.hard_cap {
            o = Outcome::Hang;
        }
        st.calls.push((addr.clone(), o));
        match o {
            Outcome::Unsupported => Err(TransportError::MultiaddrNotSupported(addr)),
            Outcome::OtherErr => Err(TransportError::Other(io::Error::other("inner: cannot dial"))),
            Outcome::FailFut => Ok(Box::pin(async { Err(io::Error::new(io::ErrorKind::ConnectionRefused, "inner: refused")) })),
            Outcome::FailAfterPending => Ok(Box::pin(async {
                YieldOnce(true).await;
                Err(io::Error::new(io::ErrorKind::TimedOut, "inner: timed out"))
            })),
            Outcome::Succeed => Ok(Box::pin(async { Ok(()) })),
            Outcome::Hang => Ok(Box::pin(futures::future::pending())),
        }
    }
    fn poll(self: Pin<&mut Self>, _: &mut Context<'_>) -> Poll<TransportEvent<Self::ListenerUpgrade, io::Error>> {
        Poll::Pending
    }
}

// ---------------------------------------------------------------------------------------------
// Case generation
// ---------------------------------------------------------------------------------------------

struct Case {
    zone: Zone,
    addr: Multiaddr,
    script: Vec<Outcome>,
    default: Outcome,
    features: Vec<&'static str>,
}

fn name(i: usize) -> String {
    format!("n{i}.example")
}

fn gen_ip_answer(rng: &mut Rng, kind: &'static str, nn: usize, features: &mut Vec<&'static str>) -> Ans {
    let v4 = |rng: &mut Rng| Rec::A(Ipv4Addr::new(1 + rng.below(200) as u8, rng.below(256) as u8, rng.below(256) as u8, 1 + rng.below(250) as u8));
    let v6 = |rng: &mut Rng| Rec::Aaaa(Ipv6Addr::new(0x2a00, rng.below(65536) as u16, 0, 0, 0, 0, 0, 1 + rng.below(60000) as u16));
    let own = |rng: &mut Rng| match kind {
        "a" => v4(rng),
        "aaaa" => v6(rng),
        _ => {
            if rng.bool() {
                v4(rng)
            } else {
                v6(rng)
            }
        }
    };
    match rng.weighted(&[40, 8, 8, 6, 5, 4, 6, 10]) {
        0 => Ans::Ok((0..1 + rng.usize(3)).map(|_| own(rng)).collect()),
        1 => {
            features.push("answer_empty");
            Ans::Ok(vec![])
        }
        2 => {
            features.push("answer_cname_only");
            Ans::Ok(vec![Rec::Cname(name(rng.usize(nn)))])
        }
        3 => {
            features.push("answer_wrong_family_or_txt_only");
            Ans::Ok(match kind {
                "a" => vec![v6(rng)],
                "aaaa" => vec![v4(rng)],
                _ => vec![Rec::Txt(vec![b"v=spf1".to_vec()])],
            })
        }
        4 => {
            features.push("answer_cname_then_addresses");
            let mut v = vec![Rec::Cname(name(rng.usize(nn)))];
            v.extend((0..1 + rng.usize(3)).map(|_| own(rng)));
            Ans::Ok(v)
        }
        5 => {
            features.push("resolver_error");
            if rng.bool() { Ans::ErrMsg } else { Ans::ErrIo }
        }
        6 => {
            features.push("resolver_norecords");
            Ans::NoRecords
        }
        _ => {
            features.push("answer_fanout_over_16");
            Ans::Ok((0..17 + rng.usize(8)).map(|_| own(rng)).collect())
        }
    }
}

fn gen_txt_answer(rng: &mut Rng, nn: usize, peers: &[PeerId], cyclic: bool, features: &mut Vec<&'static str>) -> Ans {
    match rng.weighted(&[80, 5, 5, 5, 5]) {
        0 => {}
        1 => {
            features.push("answer_empty");
            return Ans::Ok(vec![]);
        }
        2 => {
            features.push("answer_cname_only");
            return Ans::Ok(vec![Rec::Cname(name(rng.usize(nn)))]);
        }
        3 => {
            features.push("resolver_error");
            return if rng.bool() { Ans::ErrMsg } else { Ans::ErrIo };
        }
        _ => {
            features.push("resolver_norecords");
            return Ans::NoRecords;
        }
    }
    let n = match rng.below(5) {
        0 => {
            features.push("txt_fanout_over_16");
            17 + rng.usize(20)
        }
        1 => 1,
        _ => 1 + rng.usize(6),
    };
    let mut recs = vec![];
    for _ in 0..n {
        let peer = rng.pick(peers);
        let suffix = match rng.below(6) {
            0 => String::new(),
            _ => format!("/p2p/{peer}"),
        };
        let entry: Vec<Vec<u8>> = match rng.weighted(&[30, if cyclic { 30 } else { 8 }, 12, 4, 3, 3, 3, 3, 3]) {
            0 => vec![format!("dnsaddr=/ip4/{}.{}.{}.{}/tcp/{}{suffix}", 1 + rng.below(200), rng.below(256), rng.below(256), 1 + rng.below(250), 1 + rng.below(65000)).into_bytes()],
            1 => {
                features.push("txt_points_to_dnsaddr");
                vec![format!("dnsaddr=/dnsaddr/{}{suffix}", name(rng.usize(nn))).into_bytes()]
            }
            2 => {
                features.push("txt_points_to_dns_name");
                let k = *rng.pick(&["dns4", "dns6", "dns"]);
                vec![format!("dnsaddr=/{k}/{}/tcp/{}{suffix}", name(rng.usize(nn)), 1 + rng.below(65000)).into_bytes()]
            }
            3 => {
                features.push("txt_garbage");
                vec![b"v=spf1 include:example.com ~all".to_vec()]
            }
            4 => {
                features.push("txt_garbage");
                vec![vec![b'd', b'n', b's', b'a', b'd', b'd', b'r', b'=', 0xff, 0xfe, 0x00]]
            }
            5 => {
                features.push("txt_garbage");
                vec![b"dnsaddr=not/a/multiaddr".to_vec()]
            }
            6 => {
                features.push("txt_garbage");
                vec![]
            }
            7 => {
                features.push("txt_multi_string");
                vec![format!("dnsaddr=/ip6/2a00::{:x}/udp/{}/quic-v1{suffix}", 1 + rng.below(60000), 1 + rng.below(65000)).into_bytes(), b"junk".to_vec()]
            }
            _ => {
                features.push("txt_garbage");
                vec![b"dnsaddr=".to_vec()]
            }
        };
        recs.push(Rec::Txt(entry));
        if rng.chance(1, 12) {
            recs.push(Rec::A(Ipv4Addr::new(9, 9, 9, 9)));
        }
    }
    Ans::Ok(recs)
}

fn gen_case(rng: &mut Rng) -> Case {
    let nn = 1 + rng.usize(6);
    let peers: Vec<PeerId> = (0..2).map(|_| util::peer_id_from(rng)).collect();
    let mut features = vec![];
    let cyclic = rng.chance(1, 3);
    if cyclic {
        features.push("cyclic_bias");
    }
    let mut zone = Zone::default();
    for i in 0..nn {
        for kind in ["ip", "a", "aaaa"] {
            if rng.chance(9, 10) {
                let a = gen_ip_answer(rng, kind, nn, &mut features);
                zone.m.insert((kind, name(i)), a);
            }
        }
        if rng.chance(9, 10) {
            let a = gen_txt_answer(rng, nn, &peers, cyclic, &mut features);
            zone.m.insert(("txt", format!("_dnsaddr.{}", name(i))), a);
        }
    }
    let p = &peers[0];
    let port = 1 + rng.below(65000);
    let s = match rng.weighted(&[50, 28, 4, 12, 6]) {
        0 => {
            features.push("orig_dnsaddr");
            if rng.chance(4, 5) { format!("/dnsaddr/{}/p2p/{p}", name(0)) } else { format!("/dnsaddr/{}", name(0)) }
        }
        1 => {
            features.push("orig_dns_name");
            let k = *rng.pick(&["dns4", "dns6", "dns"]);
            if rng.bool() { format!("/{k}/{}/tcp/{port}/p2p/{p}", name(0)) } else { format!("/{k}/{}/udp/{port}/quic-v1", name(0)) }
        }
        2 => {
            features.push("orig_plain_ip");
            format!("/ip4/8.8.4.4/tcp/{port}/p2p/{p}")
        }
        3 => {
            features.push("orig_two_dns_components");
            let k = *rng.pick(&["dns4", "dns6", "dns"]);
            format!("/{k}/{}/tcp/{port}/p2p/{}/p2p-circuit/dns4/{}/tcp/4001/p2p/{p}", name(0), peers[1], name(rng.usize(nn)))
        }
        _ => {
            features.push("orig_prefix_before_dnsaddr");
            format!("/ip4/9.9.9.9/tcp/{port}/p2p/{}/p2p-circuit/dnsaddr/{}/p2p/{p}", peers[1], name(0))
        }
    };
    let addr: Multiaddr = s.parse().unwrap_or_else(|e| panic!("{s}: {e}"));
    let default = match rng.weighted(&[45, 10, 10, 25, 6, 4]) {
        0 => Outcome::FailFut,
        1 => Outcome::FailAfterPending,
        2 => Outcome::Unsupported,
        3 => Outcome::Succeed,
        4 => Outcome::OtherErr,
        _ => Outcome::Hang,
    };
    let script: Vec<Outcome> = (0..rng.usize(24))
        .map(|_| match rng.weighted(&[40, 15, 15, 8, 15, 1]) {
            0 => Outcome::FailFut,
            1 => Outcome::FailAfterPending,
            2 => Outcome::Unsupported,
            3 => Outcome::Succeed,
            4 => Outcome::OtherErr,
            _ => Outcome::Hang,
        })
        .collect();
    Case { zone, addr, script, default, features }
}

fn is_dns(p: &Protocol<'_>) -> bool {
    matches!(p, Protocol::Dns(_) | Protocol::Dns4(_) | Protocol::Dns6(_) | Protocol::Dnsaddr(_))
}

fn case_json(c: &Case, lookups: &[(&'static str, String)], calls: &[(Multiaddr, Outcome)]) -> Value {
    let mut zone: Vec<String> = c.zone.m.iter().map(|(k, v)| format!("{} {} -> {}", k.0, k.1, describe(v))).collect();
    zone.sort();
    json!({
        "dialed": c.addr.to_string(),
        "zone": zone,
        "inner_script": c.script.iter().map(|o| format!("{o:?}")).collect::<Vec<_>>(),
        "inner_default": format!("{:?}", c.default),
        "resolver_calls": lookups.iter().map(|(k, n)| format!("{k} {n}")).collect::<Vec<_>>(),
        "inner_calls": calls.iter().map(|(a, o)| format!("{a} -> {o:?}")).collect::<Vec<_>>(),
    })
}
fn describe(a: &Ans) -> String {
    match a {
        Ans::Ok(recs) => {
            let v: Vec<String> = recs
                .iter()
                .map(|r| match r {
                    Rec::Txt(s) => format!("TXT{:?}", s.iter().map(|x| String::from_utf8_lossy(x).to_string()).collect::<Vec<_>>()),
                    other => format!("{other:?}"),
                })
                .collect();
            format!("Ok[{}]", v.join(", "))
        }
        other => format!("{other:?}"),
    }
}

pub fn run(args: &Args) -> i32 {
    let mut check = Check::new(
        args,
        "fault_enumeration",
        "PRNG record graphs over 1-6 names (A/AAAA/ip/TXT answers: normal, empty, CNAME-only, wrong family, errors, fan-out 17-36, TXT pointing at other \
         /dnsaddr names incl. cycles, garbage TXT) x dialed address shape (dnsaddr with/without /p2p suffix, dns/dns4/dns6, two DNS components, prefix before \
         dnsaddr, plain IP) x scripted inner-transport outcomes; non-trivial = dial that performed >= 1 lookup; distinct by hash of (graph, address, script)",
    );
    let tiny = args.extra.get("budget").map(|s| s == "tiny").unwrap_or(false);
    let n = if tiny { 50 } else { args.tier.pick(40_000u64, 2_000_000) };
    vmon::par_cases(&check, n, args.threads, |_i, rng| {
        let c = gen_case(rng);
        let resolver = MockResolver(Arc::new(MockState { zone: c.zone.clone(), log: Mutex::new(vec![]), hard_cap: 48, pend: Mutex::new(Rng::new(rng.next_u64())) }));
        let inner = RecT(Arc::new(Mutex::new(InnerState { calls: vec![], script: c.script.clone(), default: c.default, hard_cap: 24 })));
        let mut sig = Sig::new().bytes(c.addr.as_ref());
        {
            let mut z: Vec<String> = c.zone.m.iter().map(|(k, v)| format!("{k:?}{v:?}")).collect();
            z.sort();
            for s in z {
                sig.push_str(&s);
            }
            sig.push_str(&format!("{:?}{:?}", c.script, c.default));
        }
        let (res_state, inner_state) = (resolver.0.clone(), inner.0.clone());
        let addr = c.addr.clone();
        let outcome = catch(move || {
            let mut t = libp2p_dns::Transport::verif_with_resolver(inner, resolver);
            let fut = t.dial(addr, DialOpts { role: Endpoint::Dialer, port_use: PortUse::Reuse });
            match fut {
                Err(e) => Some(Err(format!("dial() refused synchronously: {e:?}"))),
                Ok(f) => {
                    let mut f = Box::pin(f);
                    vmon::exec::run_until_stalled(&mut f, 200_000).map(|r| r.map_err(|e| format!("{e:?}")))
                }
            }
        });
        let lookups = res_state.log.lock().unwrap_or_else(|e| e.into_inner()).clone();
        let calls = inner_state.lock().unwrap_or_else(|e| e.into_inner()).calls.clone();
        let witness = || case_json(&c, &lookups, &calls);

        // ---- oracle
        let accepted = calls.iter().filter(|c| !matches!(c.1, Outcome::Unsupported | Outcome::OtherErr)).count();
        let hang_scripted = calls.iter().any(|c| c.1 == Outcome::Hang);
        match &outcome {
            Err(p) => {
                // signature: file (without line, so that unrelated edits do not rename it) + kind of the
                // resolver call the panic followed + start of the message
                let file = p.site().rsplit_once(':').map(|x| x.0.to_string()).unwrap_or_else(|| p.site());
                let last = lookups.last().map(|l| l.0).unwrap_or("none");
                let msg: String = p.msg.chars().take(28).collect();
                check.violation(format!("panic@{file}[after-{last}-lookup]:{msg}"), format!("dialing {} panicked at {}: {}", c.addr, p.site(), p.msg), witness())
            }
            Ok(None) => {
                if !hang_scripted && lookups.len() <= 32 {
                    check.inconclusive(format!("dial future stalled without a scripted hang ({} lookups, {} inner calls)", lookups.len(), calls.len()));
                }
                check.count("dials_left_pending", 1);
            }
            Ok(Some(Ok(()))) => check.count("dials_succeeded", 1),
            Ok(Some(Err(_))) => check.count("dials_failed", 1),
        }
        if lookups.len() > 32 {
            check.violation("more-than-32-lookups", format!("{} resolver calls for one dial of {}", lookups.len(), c.addr), witness());
        }
        if accepted > 16 {
            check.violation("more-than-16-accepted-dial-attempts", format!("{accepted} accepted inner dial attempts for one dial of {}", c.addr), witness());
        }
        for (a, _) in &calls {
            if a.iter().any(|p| is_dns(&p)) {
                check.violation("unresolved-dns-component-reached-inner-transport", format!("inner transport was asked to dial {a}"), witness());
                break;
            }
        }
        let comps: Vec<Protocol<'_>> = c.addr.iter().collect();
        let first_dns = comps.iter().position(is_dns);
        let mut dnsaddr_dials = 0;
        if let Some(i) = first_dns
            && matches!(comps[i], Protocol::Dnsaddr(_))
        {
            let suffix = &comps[i + 1..];
            for (a, _) in &calls {
                dnsaddr_dials += 1;
                let got: Vec<Protocol<'_>> = a.iter().collect();
                if got.len() < suffix.len() || &got[got.len() - suffix.len()..] != suffix {
                    check.violation(
                        "dnsaddr-dial-without-original-suffix",
                        format!("dialing {}: inner transport was asked to dial {a}, which does not end with the original suffix", c.addr),
                        witness(),
                    );
                    break;
                }
            }
            if !suffix.is_empty() && !calls.is_empty() {
                check.count("dnsaddr_inner_dials_with_suffix", calls.len() as u64);
            }
        }
        // ---- evidence
        check.case(sig.0, !lookups.is_empty());
        check.count("resolver_calls_total", lookups.len() as u64);
        check.count("inner_calls_total", calls.len() as u64);
        check.count("inner_calls_refused_by_inner", (calls.len() - accepted) as u64);
        check.count("dnsaddr_inner_dials", dnsaddr_dials);
        if lookups.len() == 32 {
            check.count("cases_reaching_32_lookups", 1);
        }
        if accepted == 16 {
            check.count("cases_reaching_16_accepted_dials", 1);
        }
        if calls.len() > 16 {
            check.count("cases_with_more_than_16_inner_calls_incl_refused", 1);
        }
        let mut f = c.features.clone();
        f.sort();
        f.dedup();
        for k in f {
            check.count(&format!("feature_{k}"), 1);
        }
        if check.want_sample() && lookups.len() >= 3 && calls.len() >= 2 && lookups.len() < 12 {
            check.sample(json!({"case": witness(), "result": format!("{:?}", outcome.as_ref().map_err(|p| p.msg.clone()))}));
        }
    });
    check.note("exhaustive", json!(false));
    check.assume("mock resolver answers are built with hickory's public Lookup::new_with_max_ttl / LookupIp::from, i.e. values a Resolver implementation can return");
    util::require_observed(
        &mut check,
        &[
            "dnsaddr_inner_dials_with_suffix", "cases_reaching_32_lookups", "cases_reaching_16_accepted_dials", "feature_answer_empty", "feature_answer_cname_only",
            "feature_txt_garbage", "feature_txt_fanout_over_16", "feature_answer_fanout_over_16", "feature_resolver_error", "dials_succeeded", "dials_failed",
        ],
    );
    check.finish()
}
