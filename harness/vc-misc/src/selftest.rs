//! SELFTEST — exercises the driver / verdict plumbing on a toy property (DESIGN §9 step 1).
//!
//! Toy property: "`toy_add(a, b)` is commutative and equals the wrapping sum".
//! * no `--mode`            the real toy function is run: the check must be HELD (exit 0)
//! * `--mode violate`       a deliberately broken toy function is run: the oracle must report
//!   `VIOLATION` (exit 1) with the stable signature `toy-add-not-commutative`
//! * `--mode timeout`       every case hangs; the watchdog maps that to `inconclusive` only
//!   (exit 2, never 1)
use std::time::Duration;

use vmon::{Args, Check, Sig, catch, json};

fn toy_add(a: u32, b: u32, broken: bool) -> u32 {
    if broken && a > b && (a ^ b) & 0x10 != 0 {
        // the "defect": asymmetric off-by-one on a sub-class of inputs
        a.wrapping_add(b).wrapping_add(1)
    } else {
        a.wrapping_add(b)
    }
}

pub fn run(args: &Args) -> i32 {
    let mode = args.extra.get("mode").map(|s| s.as_str()).unwrap_or("");
    let check = Check::new(
        args,
        "exploration",
        "PRNG pairs (a, b) of u32 incl. edge values; non-trivial = a != b; distinct by (a, b)",
    );
    check.note("mode", json!(mode));
    if mode == "timeout" {
        // A case that never finishes: the watchdog fires and the case is inconclusive.
        for i in 0..3u32 {
            let r = vmon::exec::block_on_timeout(futures::future::pending::<()>(), Duration::from_millis(50));
            if r.is_none() {
                check.inconclusive(format!("case {i}: watchdog fired after 50 ms (deliberate hang)"));
            }
        }
        return check.finish();
    }
    let broken = mode == "violate";
    let n = args.tier.pick(2_000u64, 200_000);
    vmon::par_cases(&check, n, args.threads, |i, rng| {
        let edge = [0u32, 1, 0x10, 0x11, u32::MAX, u32::MAX - 1, 0x8000_0000];
        let a = if rng.chance(1, 4) { *rng.pick(&edge) } else { rng.next_u32() };
        let b = if rng.chance(1, 4) { *rng.pick(&edge) } else { rng.next_u32() };
        match catch(|| (toy_add(a, b, broken), toy_add(b, a, broken))) {
            Err(p) => check.violation(format!("panic@{}", p.site()), p.msg.clone(), json!({"a": a, "b": b})),
            Ok((x, y)) => {
                if x != y {
                    check.violation("toy-add-not-commutative", format!("toy_add({a},{b})={x} but toy_add({b},{a})={y}"), json!({"a": a, "b": b}));
                } else if x != a.wrapping_add(b) {
                    check.violation("toy-add-wrong-sum", format!("toy_add({a},{b})={x}"), json!({"a": a, "b": b}));
                }
            }
        }
        check.case(Sig::new().u64(a as u64).u64(b as u64).0, a != b);
        if i < 3 {
            check.sample(json!({"a": a, "b": b, "sum": toy_add(a, b, broken)}));
        }
    });
    check.note("exhaustive", json!(false));
    check.finish()
}
