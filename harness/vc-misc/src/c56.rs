//! C56 — WebRTC stream half-close state machine (`libp2p_webrtc_utils::Stream`).
//!
//! Real code: the public `Stream::new(data_channel)` over a `vmon` pipe. The other end of the pipe is
//! either (a) a **raw framed peer** played by the harness (independent encoder: uvarint length prefix +
//! protobuf `{1: flag, 2: message}`), which can send anything at any time (data after FIN, flags in any
//! order, flag+data frames, malformed frames, EOF), or (b) a **second real `Stream`** (pair mode), so
//! that inbound flags are the ones the real code emits on close_write / close_read / drop.
//!
//! Knowing what the stream has *processed*: the inbound direction is gated so that at most one
//! not-yet-consumed frame is ever readable. `asynchronous_codec::FramedRead` decodes a frame in the
//! same `poll_next` call that pulls its last byte, hence "frame fully pulled from the pipe" (observable
//! through the pipe's read counter) == "frame handed to the stream's flag handling". No model of *when*
//! the implementation chooses to read is needed.
//!
//! Oracle (reference half-close automaton, from the statement; judged on the state *before* a call):
//! * read half is surely closed once a local `close_read` was accepted (returned Ready(Ok) or Pending),
//!   an inbound FIN was processed, or an inbound RESET was processed; a `poll_read` returning `Ok(n>0)`
//!   then is a violation (`read-allowed-after-…`).
//! * write half is surely closed once a local `close_write` (`poll_close`) was accepted, an inbound
//!   STOP_SENDING was processed, or a RESET was processed; `poll_write` returning `Ok(n>0)` then is a
//!   violation (`write-allowed-after-…`).
//! * after a processed RESET every read / write / close_read / close_write must be
//!   `Ready(Err(ConnectionReset))`.
//! * no panic, ever (profile has debug-assertions: the state machine's `debug_assert!`/`unreachable!`).
//!
//! Not judged: results of `poll_flush` (not named by the statement), `Ok(0)` reads (the implementation
//! returns `Ok(0)` for flag-only frames; harmless for the statement), which error kind a closed half
//! reports (only "not allowed"), behaviour after a malformed inbound frame or transport EOF (only
//! panics), loss of data carried by a FIN+data frame, returned data bytes (observed and counted as
//! `data_mismatch_observed`, reported in the evidence but outside the statement).
//! The converse direction ("reads ARE possible while the read half is open") is not in the statement;
//! it is enforced as *coverage*: the run is inconclusive unless successful reads/writes were observed in
//! every half-closed state.
use std::{
    io,
    pin::Pin,
    task::{Context, Poll},
};

use futures::{AsyncRead, AsyncWrite, Future};
use libp2p_webrtc_utils::{DropListener, Stream};
use vmon::{
    Args, Check, Rng, Sig, Value, catch,
    exec::flag_waker,
    json,
    pb::{self, Msg},
    pipe::{DirCtl, Sched, pipe},
};

use crate::util::{self, SharedEnd};

const FIN: u64 = 0;
const STOP: u64 = 1;
const RESET: u64 = 2;

#[derive(Clone, Debug, PartialEq, Eq)]
enum Op {
    // local operations on side `s`
    Read(u8, usize),
    Write(u8, usize),
    CloseRead(u8),
    CloseWrite(u8),
    Flush(u8),
    /// drop the stream of side `s` and run its drop listener (sends RESET unless gracefully closed)
    Drop(u8),
    // raw peer actions (raw mode only; they target side 0)
    InFlag(u64),
    InData(usize),
    InFlagData(u64, usize),
    InGarbage(u8),
    InEof,
    /// raw peer consumes what the stream wrote (releases back-pressure)
    PeerDrain,
}

#[derive(Clone, Copy, Debug, PartialEq, Eq)]
enum Res {
    Ok(usize),
    Err(io::ErrorKind),
    /// Pending without having been woken: waits for something external
    Stalled,
}

#[derive(Clone, Debug)]
struct Frame {
    end: u64,
    flag: Option<u64>,
    #[allow(dead_code)]
    data: usize,
    garbage: bool,
}

/// What the harness knows about one side's inbound direction.
struct Inbound {
    ctl: DirCtl,
    frames: Vec<Frame>,
    /// bytes appended so far (raw mode: injected; pair mode: parsed from the peer's write log)
    appended: u64,
    /// pair mode: unparsed tail of the log
    parsed_log: usize,
    eof: bool,
}

impl Inbound {
    fn processed(&self) -> usize {
        let pulled = self.ctl.read();
        self.frames.iter().take_while(|f| f.end <= pulled).count()
    }
    /// allow exactly the first unprocessed frame to be pulled
    fn sync_gate(&self) {
        let p = self.processed();
        match self.frames.get(p) {
            Some(f) => self.ctl.set_limit(Some(f.end)),
            None => self.ctl.set_limit(Some(self.appended)),
        }
    }
    fn inject(&mut self, bytes: &[u8], flag: Option<u64>, data: usize, garbage: bool) {
        self.appended += bytes.len() as u64;
        self.frames.push(Frame { end: self.appended, flag, data, garbage });
        self.ctl.inject(bytes);
        self.sync_gate();
    }
    /// pair mode: parse newly written bytes of the peer into frames with the independent decoder
    fn refresh_from_log(&mut self) {
        let log = self.ctl.log();
        loop {
            let rest = &log[self.parsed_log..];
            let Some((n, k)) = pb::get_uvarint(rest) else { break };
            if rest.len() < k + n as usize {
                break;
            }
            let body = &rest[k..k + n as usize];
            let (flag, data, garbage) = match Msg::decode(body) {
                Some(m) => (m.get_varint(1), m.get_bytes(2).map(|b| b.len()).unwrap_or(0), false),
                None => (None, 0, true),
            };
            self.parsed_log += k + n as usize;
            self.frames.push(Frame { end: self.parsed_log as u64, flag, data, garbage });
        }
        self.appended = log.len() as u64;
        self.sync_gate();
    }
}

#[derive(Default, Clone, Debug)]
struct Model {
    local_read_closed: bool,
    local_write_closed: bool,
    fin_rx: bool,
    stop_rx: bool,
    reset_rx: bool,
    /// malformed frame at least partially pulled, or the stream reported InvalidData: only panics judged
    undefined: bool,
    dropped: bool,
    /// a local close_write / close_read returned Pending (stalled) and has not completed since
    cw_pending: bool,
    cr_pending: bool,
    /// the FIN / STOP_SENDING was processed while such a close was pending (signature detail)
    fin_during_cw: bool,
    stop_during_cr: bool,
}
impl Model {
    fn read_closed(&self) -> Option<&'static str> {
        if self.reset_rx {
            Some("reset")
        } else if self.local_read_closed {
            Some("local-close-read")
        } else if self.fin_rx {
            Some("inbound-fin")
        } else {
            None
        }
    }
    fn write_closed(&self) -> Option<&'static str> {
        if self.reset_rx {
            Some("reset")
        } else if self.local_write_closed {
            Some("local-close-write")
        } else if self.stop_rx {
            Some("inbound-stop-sending")
        } else {
            None
        }
    }
    fn abstract_state(&self) -> u64 {
        (self.local_read_closed as u64) | (self.local_write_closed as u64) << 1 | (self.fin_rx as u64) << 2 | (self.stop_rx as u64) << 3 | (self.reset_rx as u64) << 4
    }
}

struct Side {
    stream: Option<Stream<SharedEnd>>,
    listener: Option<DropListener<SharedEnd>>,
    inbound: Inbound,
    /// direction written by this side's stream
    outbound: DirCtl,
    model: Model,
    /// data bytes the peer has sent so far / this side has read so far (tagged stream)
    rx_expected: Vec<u8>,
    rx_got: usize,
    tx_off: usize,
}

fn tag(side: u8, off: usize) -> u8 {
    (off as u8).wrapping_mul(31).wrapping_add(side.wrapping_mul(97)).wrapping_add(1)
}

fn encode_frame(flag: Option<u64>, data: Option<&[u8]>) -> Vec<u8> {
    let mut m = Msg::new();
    if let Some(f) = flag {
        m = m.varint(1, f);
    }
    if let Some(d) = data {
        m = m.bytes(2, d);
    }
    pb::frame(&m.encode())
}

fn poll_op(side: &mut Side, op: &Op, who: u8) -> Res {
    let (flag, waker) = flag_waker();
    let mut cx = Context::from_waker(&waker);
    let stream = side.stream.as_mut().expect("stream present");
    let mut buf = vec![0u8; 0];
    let mut data = vec![];
    match op {
        Op::Read(_, n) => buf = vec![0u8; *n],
        Op::Write(_, n) => data = (0..*n).map(|i| tag(who, side.tx_off + i)).collect(),
        _ => {}
    }
    for _ in 0..256 {
        flag.take();
        let r: Poll<io::Result<usize>> = match op {
            Op::Read(..) => Pin::new(&mut *stream).poll_read(&mut cx, &mut buf),
            Op::Write(..) => Pin::new(&mut *stream).poll_write(&mut cx, &data),
            Op::CloseRead(_) => Pin::new(&mut *stream).poll_close_read(&mut cx).map_ok(|_| 0),
            Op::CloseWrite(_) => Pin::new(&mut *stream).poll_close(&mut cx).map_ok(|_| 0),
            Op::Flush(_) => Pin::new(&mut *stream).poll_flush(&mut cx).map_ok(|_| 0),
            _ => unreachable!("not a local op"),
        };
        match r {
            Poll::Ready(Ok(n)) => {
                if let Op::Read(..) = op {
                    // data integrity is observed, not judged
                    for (i, b) in buf[..n].iter().enumerate() {
                        if side.rx_expected.get(side.rx_got + i) != Some(b) {
                            side.rx_got = usize::MAX / 2; // poison: counted once below
                            break;
                        }
                    }
                    if side.rx_got < usize::MAX / 2 {
                        side.rx_got += n;
                    }
                }
                if let Op::Write(..) = op {
                    side.tx_off += n;
                }
                return Res::Ok(n);
            }
            Poll::Ready(Err(e)) => return Res::Err(e.kind()),
            Poll::Pending => {
                if !flag.is_set() {
                    return Res::Stalled;
                }
            }
        }
    }
    Res::Stalled
}

struct Outcome {
    violation: Option<(String, String)>,
    /// abstract (state, op, result) triples seen
    states: Vec<u64>,
    counters: Vec<&'static str>,
    trace: Vec<Value>,
    /// first data mismatch seen while the model was still defined (observation, not a verdict)
    data_mismatch: Option<String>,
    data_mismatch_after_undefined: bool,
}

/// Run one history. `pair`: side 1 is a second real stream; otherwise side 1 does not exist and the
/// harness is the raw peer of side 0.
fn run_history(ops: &[Op], pair: bool, sa: Sched, sb: Sched, backpressure: Option<usize>) -> Outcome {
    let mut out = Outcome { violation: None, states: vec![], counters: vec![], trace: vec![], data_mismatch: None, data_mismatch_after_undefined: false };
    let (ea, eb, a2b, b2a) = pipe(sa, sb);
    let mk_side = |end: vmon::pipe::End, inbound: DirCtl, outbound: DirCtl| {
        let (stream, listener) = Stream::new(SharedEnd::new(end));
        Side {
            stream: Some(stream),
            listener: Some(listener),
            inbound: Inbound { ctl: inbound, frames: vec![], appended: 0, parsed_log: 0, eof: false },
            outbound,
            model: Model::default(),
            rx_expected: vec![],
            rx_got: 0,
            tx_off: 0,
        }
    };
    let mut raw_end = None;
    let mut sides: Vec<Side> = vec![mk_side(ea, b2a.clone(), a2b.clone())];
    if pair {
        sides.push(mk_side(eb, a2b.clone(), b2a.clone()));
    } else {
        raw_end = Some(eb); // keep the raw peer's end alive (dropping it would close the pipe)
    }
    if let Some(c) = backpressure {
        a2b.set_capacity(Some(c));
        if pair {
            b2a.set_capacity(Some(c));
        }
    }
    for s in &sides {
        s.inbound.sync_gate();
    }

    for (step, op) in ops.iter().enumerate() {
        // ---- bring the models up to date with what has been processed so far
        let update = |sides: &mut Vec<Side>| {
            let n = sides.len();
            for i in 0..n {
                if pair {
                    sides[i].inbound.refresh_from_log();
                    // the peer's data payloads, for the (unjudged) integrity observation
                }
                let s = &mut sides[i];
                let pulled = s.inbound.ctl.read();
                let mut start = 0u64;
                for f in &s.inbound.frames {
                    if f.garbage && pulled > start {
                        s.model.undefined = true;
                    }
                    if f.end <= pulled && !f.garbage {
                        match f.flag {
                            Some(FIN) => {
                                if !s.model.fin_rx && s.model.cw_pending {
                                    s.model.fin_during_cw = true;
                                }
                                s.model.fin_rx = true
                            }
                            Some(STOP) => {
                                if !s.model.stop_rx && s.model.cr_pending {
                                    s.model.stop_during_cr = true;
                                }
                                s.model.stop_rx = true
                            }
                            Some(RESET) => s.model.reset_rx = true,
                            Some(_) => s.model.undefined = true,
                            None => {}
                        }
                    }
                    start = f.end;
                }
                s.inbound.sync_gate();
            }
        };
        update(&mut sides);

        let rec = |out: &mut Outcome, what: Value| out.trace.push(what);
        match op {
            Op::Read(w, _) | Op::Write(w, _) | Op::CloseRead(w) | Op::CloseWrite(w) | Op::Flush(w) => {
                let w = *w as usize;
                if w >= sides.len() || sides[w].stream.is_none() {
                    continue;
                }
                let before = sides[w].model.clone();
                let processed_before = sides[w].inbound.processed();
                let res = match catch(|| poll_op(&mut sides[w], op, w as u8)) {
                    Ok(r) => r,
                    Err(p) => {
                        rec(&mut out, json!({"step": step, "op": format!("{op:?}"), "panic": p.msg}));
                        out.violation = Some((format!("panic@{}", p.site()), format!("step {step} {op:?}: panic: {}", p.msg)));
                        return out;
                    }
                };
                if pair {
                    // data written by side w becomes expected data of the other side
                    let other = 1 - w;
                    let sent = sides[w].tx_off;
                    while sides[other].rx_expected.len() < sent {
                        let off = sides[other].rx_expected.len();
                        sides[other].rx_expected.push(tag(w as u8, off));
                    }
                }
                let processed_during = sides[w].inbound.processed() - processed_before;
                rec(&mut out, json!({"step": step, "op": format!("{op:?}"), "res": format!("{res:?}"), "model_before": format!("{before:?}"), "frames_processed_during": processed_during}));
                if sides[w].rx_got >= usize::MAX / 2 && out.data_mismatch.is_none() && !out.data_mismatch_after_undefined {
                    if before.undefined {
                        out.data_mismatch_after_undefined = true;
                    } else {
                        out.data_mismatch = Some(format!("step {step} {op:?} -> {res:?}"));
                    }
                }
                if let Res::Err(io::ErrorKind::InvalidData) = res {
                    sides[w].model.undefined = true;
                }
                out.states.push(Sig::new().u64(before.abstract_state()).str(op_kind(op)).str(&res_kind(res)).0);
                // ---- judge
                if !before.undefined {
                    let s = &mut sides[w];
                    let judged_reset = before.reset_rx && !matches!(op, Op::Flush(_));
                    if judged_reset {
                        out.counters.push("reset_then_op_judged");
                        if res != Res::Err(io::ErrorKind::ConnectionReset) {
                            out.violation = Some((
                                format!("after-reset-{}-not-connection-reset", op_kind(op)),
                                format!("step {step} {op:?}: RESET had been processed, result {res:?} instead of Err(ConnectionReset)"),
                            ));
                            return out;
                        }
                    }
                    match (op, res) {
                        (Op::Read(..), Res::Ok(n)) if n > 0 => {
                            if let Some(why) = before.read_closed() {
                                let detail = if why == "inbound-fin" && before.fin_during_cw { ":fin-arrived-during-pending-close-write" } else { "" };
                                out.violation = Some((format!("read-allowed-after-{why}{detail}"), format!("step {step} {op:?}: returned {n} bytes although the read half was closed ({why})")));
                                return out;
                            }
                            out.counters.push("read_ok");
                            if before.local_write_closed && !before.cw_pending {
                                out.counters.push("read_ok_after_local_close_write");
                            }
                            if before.stop_rx {
                                out.counters.push("read_ok_after_stop_sending_rx");
                            }
                        }
                        (Op::Read(..), Res::Err(_)) if before.read_closed().is_some() => out.counters.push("read_refused_while_closed"),
                        (Op::Write(..), Res::Ok(n)) if n > 0 => {
                            if let Some(why) = before.write_closed() {
                                let detail = if why == "inbound-stop-sending" && before.stop_during_cr { ":stop-arrived-during-pending-close-read" } else { "" };
                                out.violation = Some((format!("write-allowed-after-{why}{detail}"), format!("step {step} {op:?}: accepted {n} bytes although the write half was closed ({why})")));
                                return out;
                            }
                            out.counters.push("write_ok");
                            if before.local_read_closed && !before.cr_pending {
                                out.counters.push("write_ok_after_local_close_read");
                            }
                            if before.fin_rx {
                                out.counters.push("write_ok_after_fin_rx");
                            }
                        }
                        (Op::Write(..), Res::Err(_)) if before.write_closed().is_some() => out.counters.push("write_refused_while_closed"),
                        (Op::CloseRead(_), Res::Ok(_)) | (Op::CloseRead(_), Res::Stalled) => {
                            s.model.local_read_closed = true;
                            s.model.cr_pending = res == Res::Stalled;
                            out.counters.push("close_read_accepted");
                        }
                        (Op::CloseWrite(_), Res::Ok(_)) | (Op::CloseWrite(_), Res::Stalled) => {
                            s.model.local_write_closed = true;
                            s.model.cw_pending = res == Res::Stalled;
                            out.counters.push("close_write_accepted");
                        }
                        _ => {}
                    }
                } else {
                    out.counters.push("ops_after_undefined_input");
                }
            }
            Op::Drop(w) => {
                let w = *w as usize;
                if w >= sides.len() || sides[w].stream.is_none() {
                    continue;
                }
                if pair {
                    // A byte pipe (unlike a message-oriented data channel) can hold a *partial* frame of the
                    // dropped stream (back-pressure); the drop listener then writes its RESET frame through
                    // its own framing right behind it, which tears the byte stream. What the peer decodes
                    // afterwards is an artefact of the pipe model: only panics are judged on the peer then.
                    let other = 1 - w;
                    sides[other].inbound.refresh_from_log();
                    if sides[other].inbound.parsed_log != sides[other].inbound.ctl.log().len() {
                        sides[other].model.undefined = true;
                        out.counters.push("torn_frame_at_drop");
                    }
                }
                let r = catch(|| {
                    drop(sides[w].stream.take());
                    let mut l = sides[w].listener.take().expect("listener");
                    let (flag, waker) = flag_waker();
                    let mut cx = Context::from_waker(&waker);
                    for _ in 0..256 {
                        flag.take();
                        match Pin::new(&mut l).poll(&mut cx) {
                            Poll::Ready(r) => return Some(r.map_err(|e| e.kind())),
                            Poll::Pending if !flag.is_set() => return None,
                            Poll::Pending => {}
                        }
                    }
                    None
                });
                match r {
                    Err(p) => {
                        out.violation = Some((format!("panic@{}", p.site()), format!("step {step} {op:?}: panic: {}", p.msg)));
                        return out;
                    }
                    Ok(r) => rec(&mut out, json!({"step": step, "op": format!("{op:?}"), "drop_listener": format!("{r:?}")})),
                }
                sides[w].model.dropped = true;
                out.counters.push("stream_dropped");
            }
            Op::InFlag(f) if !pair => {
                if sides[0].inbound.eof {
                    continue;
                }
                let b = encode_frame(Some(*f), None);
                sides[0].inbound.inject(&b, Some(*f), 0, false);
                rec(&mut out, json!({"step": step, "op": format!("{op:?}")}));
            }
            Op::InData(n) if !pair => {
                if sides[0].inbound.eof {
                    continue;
                }
                let off = sides[0].rx_expected.len();
                let d: Vec<u8> = (0..*n).map(|i| tag(9, off + i)).collect();
                sides[0].rx_expected.extend_from_slice(&d);
                let b = encode_frame(None, Some(&d));
                sides[0].inbound.inject(&b, None, *n, false);
                rec(&mut out, json!({"step": step, "op": format!("{op:?}")}));
            }
            Op::InFlagData(f, n) if !pair => {
                if sides[0].inbound.eof {
                    continue;
                }
                let off = sides[0].rx_expected.len();
                let d: Vec<u8> = (0..*n).map(|i| tag(9, off + i)).collect();
                sides[0].rx_expected.extend_from_slice(&d);
                let b = encode_frame(Some(*f), Some(&d));
                sides[0].inbound.inject(&b, Some(*f), *n, false);
                rec(&mut out, json!({"step": step, "op": format!("{op:?}")}));
            }
            Op::InGarbage(k) if !pair => {
                if sides[0].inbound.eof {
                    continue;
                }
                let b: Vec<u8> = match k % 5 {
                    0 => pb::frame(&Msg::new().varint(1, 7).encode()),                 // unknown flag value
                    1 => pb::frame(&[0x12, 0x05, 1, 2]),                               // truncated bytes field
                    2 => pb::uvarint(20_000),                                          // length prefix over the 16 KiB limit
                    3 => pb::frame(&[0xff, 0xff, 0xff]),                               // broken key
                    _ => pb::frame(&Msg::new().varint(1, u64::MAX).bytes(3, [1u8]).encode()), // huge flag + unknown field
                };
                sides[0].inbound.inject(&b, None, 0, true);
                rec(&mut out, json!({"step": step, "op": format!("{op:?}")}));
            }
            Op::InEof if !pair => {
                sides[0].inbound.eof = true;
                sides[0].inbound.ctl.close();
                sides[0].model.undefined = true; // transport EOF: only panics are judged afterwards
                rec(&mut out, json!({"step": step, "op": "InEof"}));
            }
            Op::PeerDrain if !pair => {
                let n = sides[0].outbound.drain().len();
                rec(&mut out, json!({"step": step, "op": "PeerDrain", "bytes": n}));
            }
            _ => {}
        }
    }
    // end of history: drop whatever is left (drop listener included) under panic capture
    let r = catch(|| {
        for s in sides.iter_mut() {
            drop(s.stream.take());
            if let Some(mut l) = s.listener.take() {
                let (flag, waker) = flag_waker();
                let mut cx = Context::from_waker(&waker);
                for _ in 0..64 {
                    flag.take();
                    if Pin::new(&mut l).poll(&mut cx).is_ready() || !flag.is_set() {
                        break;
                    }
                }
            }
        }
        drop(raw_end.take());
    });
    if let Err(p) = r {
        out.violation = Some((format!("panic@{}", p.site()), format!("teardown: panic: {}", p.msg)));
    }
    out
}

fn op_kind(op: &Op) -> &'static str {
    match op {
        Op::Read(..) => "read",
        Op::Write(..) => "write",
        Op::CloseRead(_) => "close_read",
        Op::CloseWrite(_) => "close_write",
        Op::Flush(_) => "flush",
        Op::Drop(_) => "drop",
        Op::InFlag(FIN) => "in_fin",
        Op::InFlag(STOP) => "in_stop_sending",
        Op::InFlag(_) => "in_reset",
        Op::InData(_) => "in_data",
        Op::InFlagData(..) => "in_flag_data",
        Op::InGarbage(_) => "in_garbage",
        Op::InEof => "in_eof",
        Op::PeerDrain => "peer_drain",
    }
}
fn res_kind(r: Res) -> String {
    match r {
        Res::Ok(0) => "ok0".into(),
        Res::Ok(_) => "ok".into(),
        Res::Err(k) => format!("{k:?}"),
        Res::Stalled => "stalled".into(),
    }
}

const EXH_ALPHABET: [Op; 9] = [
    Op::Read(0, 4),
    Op::Write(0, 3),
    Op::CloseRead(0),
    Op::CloseWrite(0),
    Op::Flush(0),
    Op::InFlag(FIN),
    Op::InFlag(STOP),
    Op::InFlag(RESET),
    Op::InData(6),
];

fn gen_raw(rng: &mut Rng) -> Vec<Op> {
    let len = 4 + rng.usize(28);
    (0..len)
        .map(|_| match rng.weighted(&[18, 16, 6, 6, 6, 5, 5, 4, 16, 3, 1, 1, 4, 1]) {
            0 => Op::Read(0, *rng.pick(&[1usize, 3, 64, 5000])),
            1 => Op::Write(0, *rng.pick(&[1usize, 10, 2000, 20_000])),
            2 => Op::CloseRead(0),
            3 => Op::CloseWrite(0),
            4 => Op::Flush(0),
            5 => Op::InFlag(FIN),
            6 => Op::InFlag(STOP),
            7 => Op::InFlag(RESET),
            8 => Op::InData(*rng.pick(&[1usize, 5, 100, 3000])),
            9 => Op::InFlagData(rng.below(3), *rng.pick(&[1usize, 7])),
            10 => Op::InGarbage(rng.below(5) as u8),
            11 => Op::InEof,
            12 => Op::PeerDrain,
            _ => Op::Drop(0),
        })
        .collect()
}

fn gen_pair(rng: &mut Rng) -> Vec<Op> {
    let len = 6 + rng.usize(34);
    (0..len)
        .map(|_| {
            let w = rng.below(2) as u8;
            match rng.weighted(&[30, 26, 8, 8, 14, 2]) {
                0 => Op::Read(w, *rng.pick(&[1usize, 3, 64, 5000])),
                1 => Op::Write(w, *rng.pick(&[1usize, 10, 2000])),
                2 => Op::CloseRead(w),
                3 => Op::CloseWrite(w),
                4 => Op::Flush(w),
                _ => Op::Drop(w),
            }
        })
        .collect()
}

pub fn run(args: &Args) -> i32 {
    let mut check = Check::new(
        args,
        "exploration",
        "(a) bounded-exhaustive: every sequence of length <= L (quick 5, thorough 6) over {read, write, close_read, close_write, flush, \
         inbound FIN, STOP_SENDING, RESET, data} against a raw framed peer, smooth pipe; (b) PRNG raw-peer histories (4-31 ops) adding flag+data frames, \
         malformed frames, EOF, drop, back-pressure and chunked/Pending-storm pipe schedules; (c) PRNG histories over a pair of real streams. \
         non-trivial = history containing a local op judged in a half-closed or reset state; distinct by hash of the op sequence (+mode)",
    );
    let tiny = args.extra.get("budget").map(|s| s == "tiny").unwrap_or(false);
    let max_len = if tiny { 3 } else { args.tier.pick(5usize, 6) };
    let report = |check: &Check, mode: &str, ops: &[Op], o: Outcome, extra: Value| {
        let mut sig = Sig::new().str(mode);
        for op in ops {
            sig.push_str(&format!("{op:?}"));
        }
        let nontrivial = o.counters.iter().any(|c| {
            matches!(
                *c,
                "reset_then_op_judged" | "read_ok_after_local_close_write" | "read_ok_after_stop_sending_rx" | "write_ok_after_local_close_read" | "write_ok_after_fin_rx" | "read_refused_while_closed" | "write_refused_while_closed"
            )
        });
        if let Some((s, what)) = &o.violation {
            check.violation(s.clone(), what.clone(), json!({"mode": mode, "ops": ops.iter().map(|o| format!("{o:?}")).collect::<Vec<_>>(), "setup": extra, "trace": o.trace}));
        }
        check.case(sig.0, nontrivial);
        for c in &o.counters {
            check.count(c, 1);
        }
        for s in &o.states {
            check.distinct("states_seen", *s);
        }
        if o.data_mismatch_after_undefined {
            check.count("data_mismatch_after_malformed_input_or_eof", 1);
        }
        if let Some(d) = &o.data_mismatch {
            check.count("data_mismatch_observed", 1);
            if check.counter("data_mismatch_observed") <= 3 {
                check.note(
                    &format!("data_mismatch_example_{}", check.counter("data_mismatch_observed")),
                    json!({"mode": mode, "where": d, "ops": ops.iter().map(|o| format!("{o:?}")).collect::<Vec<_>>(), "setup": extra.clone(), "trace": o.trace.clone()}),
                );
            }
        }
        check.count(&format!("histories_{mode}"), 1);
        if nontrivial && check.want_sample() && ops.len() >= 4 {
            check.sample(json!({"mode": mode, "ops": ops.iter().map(|o| format!("{o:?}")).collect::<Vec<_>>(), "setup": extra, "trace_tail": o.trace.iter().rev().take(4).rev().cloned().collect::<Vec<_>>()}));
        }
    };

    // ---- (a) bounded-exhaustive, raw peer
    let mut total: u64 = 0;
    for l in 1..=max_len {
        total += 9u64.pow(l as u32);
    }
    vmon::par_cases(&check, total, args.threads, |i, _rng| {
        // decode index -> (length, digits)
        let mut idx = i;
        let mut len = 1;
        while idx >= 9u64.pow(len as u32) {
            idx -= 9u64.pow(len as u32);
            len += 1;
        }
        let mut ops = Vec::with_capacity(len);
        for _ in 0..len {
            ops.push(EXH_ALPHABET[(idx % 9) as usize].clone());
            idx /= 9;
        }
        let o = run_history(&ops, false, Sched::smooth(), Sched::smooth(), None);
        report(&check, "exhaustive", &ops, o, json!({"sched": "smooth"}));
    });
    check.note("exhaustive_max_len", json!(max_len));
    check.note("exhaustive_sequences", json!(total));

    // ---- (b) PRNG raw peer
    let n_raw = if tiny { 20 } else { args.tier.pick(30_000u64, 1_000_000) };
    vmon::par_cases(&check, n_raw, args.threads, |_i, rng| {
        let ops = gen_raw(rng);
        let sa = if rng.chance(1, 3) { Sched::smooth() } else { Sched::random(rng) };
        let bp = if rng.chance(1, 3) { Some(*rng.pick(&[1usize, 4, 64])) } else { None };
        let desc = json!({"sched": sa.describe(), "backpressure": bp});
        let o = run_history(&ops, false, sa, Sched::smooth(), bp);
        report(&check, "raw", &ops, o, desc);
    });

    // ---- (c) PRNG pair of real streams
    let n_pair = if tiny { 20 } else { args.tier.pick(20_000u64, 600_000) };
    vmon::par_cases(&check, n_pair, args.threads, |_i, rng| {
        let ops = gen_pair(rng);
        let (sa, sb) = if rng.chance(1, 3) { (Sched::smooth(), Sched::smooth()) } else { (Sched::random(rng), Sched::random(rng)) };
        let bp = if rng.chance(1, 4) { Some(*rng.pick(&[4usize, 64, 4096])) } else { None };
        let desc = json!({"sched_a": sa.describe(), "sched_b": sb.describe(), "backpressure": bp});
        let o = run_history(&ops, true, sa, sb, bp);
        report(&check, "pair", &ops, o, desc);
    });

    check.note("exhaustive", json!(false));
    check.note("exhaustive_note", json!("part (a) is exhaustive up to exhaustive_max_len over the 9-op alphabet; (b),(c) are sampled"));
    check.assume("asynchronous_codec::FramedRead decodes a frame in the poll_next call that pulls its last byte (frame fully pulled == flag processed)");
    let dm = check.counter("data_mismatch_observed");
    if dm > 0 {
        println!("OBSERVATION property=C56 data_mismatch_observed={dm} (returned bytes differ from the bytes sent; outside the statement, not a verdict)");
    }
    util::require_observed(
        &mut check,
        &[
            "read_ok", "write_ok", "reset_then_op_judged", "read_ok_after_local_close_write", "read_ok_after_stop_sending_rx", "write_ok_after_local_close_read",
            "write_ok_after_fin_rx", "read_refused_while_closed", "write_refused_while_closed", "close_read_accepted", "close_write_accepted", "stream_dropped",
        ],
    );
    check.finish()
}
