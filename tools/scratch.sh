#!/bin/bash
# Scratch copy for mutant validation, fully outside /repo and /verif:
#   tools/scratch.sh create <dir>   git worktree of /repo HEAD at <dir>/repo + copy of the harness at <dir>/verif
#   tools/scratch.sh sync <dir>     re-copy harness sources (after editing /verif/harness)
#   tools/scratch.sh remove <dir>   remove worktree, copy and build output
# then: edit files under <dir>/repo (the mutant) and run <dir>/verif/check <ID> quick
set -eu
cmd="$1"; dir="$2"
copy() {
  mkdir -p "$dir/verif"
  rsync -a --delete --exclude 'target*' /verif/harness/ "$dir/verif/harness/"
  cp /verif/check /verif/known_findings.json "$dir/verif/"
  find "$dir/verif/harness" -name Cargo.toml -exec sed -i "s|\"/repo/|\"$dir/repo/|g" {} +
  mkdir -p "$dir/verif/evidence" "$dir/verif/runs"
}
case "$cmd" in
  create) mkdir -p "$dir"; git -C /repo worktree add --detach "$dir/repo" HEAD >/dev/null; copy; echo "scratch at $dir (check: $dir/verif/check <ID> quick)";;
  sync) copy;;
  remove) git -C /repo worktree remove --force "$dir/repo" 2>/dev/null || true; rm -rf "$dir"; git -C /repo worktree prune;;
  *) echo "usage: $0 create|sync|remove <dir>"; exit 2;;
esac
