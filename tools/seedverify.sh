#!/bin/bash
# tools/seedverify.sh <worktree> <outdir> <ID> <crate> <testdir>  : confirm a seeded defect myself:
#   demo FAILS with the patch, PASSES without; the crate's existing lib tests pass with the patch. Prints one summary line.
WT="$1"; OUT="$2"; ID="$3"; CRATE="$4"; TDIR="$5"
export CARGO_TARGET_DIR="$WT/target" CARGO_NET_OFFLINE=true
cd "$WT" && git checkout -q -- . && git clean -fdq -e target
demo="$(ls $OUT/$ID/*.rs | head -1)"; name="$(basename $demo .rs)"
mkdir -p "$TDIR" && cp "$demo" "$TDIR/"
git apply "$OUT/$ID/patch.diff" || { echo "VERIFY $ID: patch does not apply"; exit 1; }
with="$(timeout 3000 cargo test --offline -p $CRATE --test $name 2>&1 | grep -E '^test result' | tail -1)"
lib="$(timeout 3000 cargo test --offline -p $CRATE --lib 2>&1 | grep -E '^test result' | tail -1)"
git checkout -q -- .
without="$(timeout 3000 cargo test --offline -p $CRATE --test $name 2>&1 | grep -E '^test result' | tail -1)"
git clean -fdq -e target
echo "VERIFY $ID: with-patch demo: [$with] | existing lib tests with patch: [$lib] | without patch demo: [$without]"
