#!/usr/bin/env python3
import json, os, sys, subprocess
sys.path.insert(0, os.path.dirname(__file__))
from checks import CHECKS, NOT_APPLICABLE
root = os.path.dirname(os.path.dirname(os.path.abspath(__file__)))
props = [json.loads(l)["id"] for l in open(os.path.join(root, "properties.jsonl"))]
hooks = []
try:
    out = subprocess.run(["git", "-C", "/repo", "log", "--format=%H %s"], capture_output=True, text=True).stdout
    hooks = [l.split()[0] for l in out.splitlines() if " verif hooks:" in " " + l.split(" ", 1)[1] or l.split(" ", 1)[1].startswith("verif hooks:")]
except Exception:
    pass
checks = []
for pid in props:
    if pid not in CHECKS:
        continue
    cat, tech, text, note, ref = CHECKS[pid]
    checks.append({
        "property_id": pid,
        "quick_cmd": f"./check {pid} quick",
        "thorough_cmd": f"./check {pid} thorough",
        "evidence_file": f"/verif/evidence/{pid}.json",
        "replay_cmd_template": f"./check {pid} quick --replay {{path}}",
        "engine": "vmon",
        "level_claimed": {"category": cat, "text": text, "design_ref": ref},
        "level_note": note,
        "technique": tech,
    })
na = [{"property_id": p, "reason": NOT_APPLICABLE.get(p, "check not built yet in this round (planned in DESIGN.md §5/§9); not claimed until its monitor exists and is silent on the unchanged tree")} for p in props if p not in CHECKS]
m = {
    "version": 1,
    "setup_cmd": "./setup.sh",
    "hooks": {
        "guard": "--cfg libp2p_verif",
        "enable": "RUSTFLAGS='--cfg libp2p_verif' (set by ./check for the harness workspace, whose crates depend on /repo by path)",
        "baseline_off_cmd": "cd /repo && cargo nextest run --workspace --no-fail-fast --offline --test-threads 8 || cargo test --workspace --no-fail-fast --offline",
        "source_commits": hooks,
        "add_only": True,
    },
    "engines": [
        {"name": "vmon", "path": "/verif/harness", "serves_properties": [c["property_id"] for c in checks],
         "kind_free_text": "runtime monitors: the real crates from /repo are executed under generated/hostile workloads; independent oracles (reference models, fold-of-events, differential codecs, per-id automata) judge recorded histories; sanitizer passes (Miri/ASan/TSan) re-run workloads"},
    ],
    "checks": checks,
    "not_applicable": na,
    "notes": "Every check: exit 0 held-on-observed, 1 + VIOLATION line, 2 inconclusive (never mapped to violation), 3 build failure. VERIF_SEED selects the PRNG stream. known_findings.json lists recorded/fixed defects.",
}
json.dump(m, open(os.path.join(root, "MANIFEST.json"), "w"), indent=1)
print("checks:", len(checks), "not_applicable:", len(na), "hook commits:", len(hooks))
