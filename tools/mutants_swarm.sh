#!/bin/bash
# Mutant validation for the vc-swarm group. usage: tools/mutants_swarm.sh /tmp/main
S="${1:-/tmp/main}"
M=/verif/tools/mutant.sh
ed() { cat <<EOF
import re,sys
def sub(path, old, new, count=1):
    s=open(path).read()
    if old not in s: print("PATTERN NOT FOUND in", path, ":", old[:60]); sys.exit(3)
    s=s.replace(old,new,count); open(path,'w').write(s)
EOF
}
run() { name="$1"; shift; ids="$1"; shift; { ed; cat; } | $M "$S" "$name" $ids; }

run M01-drop-dec-pending-on-failure "C02 C01" <<'EOF'
s=open('swarm/src/connection/pool.rs').read()
i=s.index('task::PendingConnectionEvent::PendingFailed')
j=s.index('self.counters.dec_pending(&endpoint);', i)
s=s[:j]+s[j+len('self.counters.dec_pending(&endpoint);'):]
open('swarm/src/connection/pool.rs','w').write(s)
EOF
run M02-lost-error-event-on-established-inbound-denial "C01 C06" <<'EOF'
sub('swarm/src/lib.rs','''                                self.pending_swarm_events.push_back(
                                    SwarmEvent::IncomingConnectionError {
                                        connection_id: id,
                                        send_back_addr,
                                        local_addr,
                                        error: listen_error,
                                        peer_id: Some(peer_id),
                                    },
                                );
                                return;''','''                                let _ = (send_back_addr, local_addr, listen_error);
                                return;''')
EOF
run M03-closed-num-established-off-by-one "C02" <<'EOF'
sub('swarm/src/lib.rs','u32::try_from(remaining_established_connection_ids.len()).unwrap();','u32::try_from(remaining_established_connection_ids.len() + 1).unwrap();')
EOF
run M04-no-dialfailure-for-aborted "C01" <<'EOF'
sub('swarm/src/lib.rs','''                let error = error.into();

                self.behaviour
                    .on_swarm_event(FromSwarm::DialFailure(DialFailure {
                        peer_id: peer,
                        error: &error,
                        connection_id,
                    }));
''','''                let error: DialError = error.into();
                if !matches!(error, DialError::Aborted) {
                self.behaviour
                    .on_swarm_event(FromSwarm::DialFailure(DialFailure {
                        peer_id: peer,
                        error: &error,
                        connection_id,
                    }));
                }
''')
EOF
run M05-nonatomic-connection-id "C03" <<'EOF'
sub('swarm/src/connection.rs','Self(NEXT_CONNECTION_ID.fetch_add(1, Ordering::SeqCst))','{ let v = NEXT_CONNECTION_ID.load(Ordering::SeqCst); NEXT_CONNECTION_ID.store(v + 1, Ordering::SeqCst); Self(v) }')
EOF
run M06-no-dedupe-of-dial-addresses "C04" <<'EOF'
sub('swarm/src/lib.rs','''                    && unique_addresses.insert(addr.clone())''','''                    && { unique_addresses.insert(addr.clone()); true }''')
EOF
run M07-notdialing-checks-connected "C04" <<'EOF'
sub('swarm/src/lib.rs','(PeerCondition::NotDialing, Some(peer_id)) => !self.pool.is_dialing(peer_id),','(PeerCondition::NotDialing, Some(peer_id)) => !self.pool.is_connected(peer_id),')
EOF
run M08-own-listen-addresses-not-filtered "C04" <<'EOF'
sub('swarm/src/lib.rs','!self.listened_addrs.values().flatten().any(|a| a == addr)\n                    &&','true &&')
EOF
run M09-no-local-peer-check-inbound "C05" <<'EOF'
sub('swarm/src/connection/pool.rs','if self.local_id == obtained_peer_id {','if self.local_id == obtained_peer_id && matches!(endpoint, ConnectedPoint::Dialer { .. }) {')
EOF
run M10-wrong-peer-accepted-when-unknown-expected "C05" <<'EOF'
sub('swarm/src/connection/pool.rs','''                        if let Some(peer) = expected_peer_id
                            && peer != obtained_peer_id
                        {''','''                        if let Some(peer) = expected_peer_id
                            && peer != obtained_peer_id && obtained_peer_id == self.local_id
                        {''')
EOF
run M11-pending-inbound-denial-not-final "C06 C01" <<'EOF'
sub('swarm/src/lib.rs','''                                error: listen_error,
                                peer_id: None,
                            });
                        return;
                    }
                }

                self.pool.add_incoming(''','''                                error: listen_error,
                                peer_id: None,
                            });
                    }
                }

                self.pool.add_incoming(''')
EOF
run M12-notify-one-stuck-on-closing "C07" <<'EOF'
sub('swarm/src/lib.rs','        Poll::Ready(Err(())) => None, // connection is closing','        Poll::Ready(Err(())) => Some(event), // connection is closing')
EOF
run M13-notify-any-uses-current-connections "C07" <<'EOF'
sub('swarm/src/lib.rs','''    for id in ids.into_iter() {
        if let Some(conn) = pool.get_established(id) {''','''    let ids: SmallVec<[ConnectionId; 10]> = { let _ = ids; pool.iter_connected().copied().collect::<Vec<_>>().into_iter().flat_map(|p| pool.iter_established_connections_of_peer(&p).collect::<Vec<_>>()).collect() };
    for id in ids.into_iter() {
        if let Some(conn) = pool.get_established(id) {''')
EOF
run M14-concurrency-window-plus-one "C08" <<'EOF'
sub('swarm/src/connection/pool/concurrent_dial.rs','.take(concurrency_factor.get() as usize)','.take(concurrency_factor.get() as usize + 1)')
EOF
run M15-no-refill-after-failure "C08" <<'EOF'
sub('swarm/src/connection/pool/concurrent_dial.rs','''                    if let Some(dial) = self.pending_dials.next() {
                        self.dials.push(dial.fut);
                    }''','''                    if self.errors.len() % 2 == 0 && let Some(dial) = self.pending_dials.next() {
                        self.dials.push(dial.fut);
                    }''')
EOF
run M16-errors-lost-on-success "C08" <<'EOF'
sub('swarm/src/connection/pool/concurrent_dial.rs','''                Some((addr, Ok(output))) => {
                    let errors = std::mem::take(&mut self.errors);
                    return Poll::Ready(Ok((addr, output, errors)));
                }
                Some((addr, Err(e))) => {
                    self.errors.push((addr, e));
                    if let''','''                Some((addr, Ok(output))) => {
                    let mut errors = std::mem::take(&mut self.errors);
                    errors.truncate(1);
                    return Poll::Ready(Ok((addr, output, errors)));
                }
                Some((addr, Err(e))) => {
                    self.errors.push((addr, e));
                    if let''')
EOF
run M17-tcp-ranked-before-quic "C09" <<'EOF'
sub('swarm/src/connection/pool/dial_ranker.rs','''    let transport_rank: u8 = if dial.addr.iter().any(|p| matches!(p, Protocol::QuicV1)) {
        0''','''    let transport_rank: u8 = if dial.addr.iter().any(|p| matches!(p, Protocol::QuicV1)) {
        3''')
EOF
run M18-relay-before-public "C09" <<'EOF'
sub('swarm/src/connection/pool/dial_ranker.rs','''    result.extend(group_delays(
        public,
        PUBLIC_TCP_DELAY,
        PUBLIC_QUIC_DELAY,
        PUBLIC_OTHER_DELAY,
        Duration::ZERO,
    ));
''','')
sub('swarm/src/connection/pool/dial_ranker.rs','''    let max_delay = result.iter()''','''    result.extend(group_delays(
        public,
        PUBLIC_TCP_DELAY,
        PUBLIC_QUIC_DELAY,
        PUBLIC_OTHER_DELAY,
        Duration::ZERO,
    ));
    let max_delay = result.iter()''')
EOF
run M19-idle-ignores-active-streams "C10" <<'EOF'
sub('swarm/src/connection.rs','''                && requested_substreams.is_empty()
                && stream_counter.has_no_active_streams()''','''                && requested_substreams.is_empty()''')
EOF
run M20-idle-timer-half "C10" <<'EOF'
sub('swarm/src/connection.rs','let safe_keep_alive = checked_add_fraction(now, idle_timeout);','let safe_keep_alive = checked_add_fraction(now, idle_timeout / 3);')
EOF
run M21-keepalive-flag-ignored-when-timer-running "C10" <<'EOF'
sub('swarm/src/connection.rs','        (_, true) => Some(Shutdown::None),','        (Shutdown::Later(_), true) => None,\n        (_, true) => Some(Shutdown::None),')
EOF
run M22-remote-remove-not-recorded "C11" <<'EOF'
sub('swarm/src/handler.rs','.filter_map(|i| existing_protocols.take(&i)),','.filter_map(|i| existing_protocols.get(&i).cloned()),')
EOF
run M23-local-added-invalid-kept "C11" <<'EOF'
sub('swarm/src/handler.rs','''        existing_protocols.retain(|p, &mut is_supported| {
            if !is_supported {''','''        existing_protocols.retain(|p, &mut is_supported| {
            if !is_supported && p.0.as_ref().len() > 2 {''')
EOF
run M24-expired-addr-kept-in-listeners "C12" <<'EOF'
sub('swarm/src/lib.rs','''                if let Some(addrs) = self.listened_addrs.get_mut(&listener_id) {
                    addrs.retain(|a| a != &listen_addr);
                }''','''                if let Some(addrs) = self.listened_addrs.get_mut(&listener_id) && addrs.len() > 1 {
                    addrs.retain(|a| a != &listen_addr);
                }''')
EOF
run M25-external-capacity-off-by-one "C12" <<'EOF'
sub('swarm/src/behaviour/external_addresses.rs','if self.addresses.len() > MAX_LOCAL_EXTERNAL_ADDRS {','if self.addresses.len() > MAX_LOCAL_EXTERNAL_ADDRS + 1 {')
EOF
run M26-listenerclosed-no-expired-for-behaviour "C12" <<'EOF'
sub('swarm/src/lib.rs','''                for addr in addrs.iter() {
                    self.behaviour.on_swarm_event(FromSwarm::ExpiredListenAddr(
                        ExpiredListenAddr { listener_id, addr },
                    ));
                }''','''                for addr in addrs.iter().skip(1) {
                    self.behaviour.on_swarm_event(FromSwarm::ExpiredListenAddr(
                        ExpiredListenAddr { listener_id, addr },
                    ));
                }''')
EOF
run M27-translation-accepts-dnsaddr "C13" <<'EOF'
sub('swarm/src/translation.rs','''        | Protocol::Dns6(_) => match observed.iter().next() {''','''        | Protocol::Dnsaddr(_)
        | Protocol::Dns6(_) => match observed.iter().next() {''')
EOF
run M28-limit-check-off-by-one "C52" <<'EOF'
sub('misc/connection-limits/src/lib.rs','    if current >= limit {','    if current > limit {')
EOF
run M29-limits-leak-on-listen-failure "C52" <<'EOF'
sub('misc/connection-limits/src/lib.rs','''            FromSwarm::ListenFailure(ListenFailure { connection_id, .. }) => {
                self.pending_inbound_connections.remove(&connection_id);
            }''','''            FromSwarm::ListenFailure(ListenFailure { .. }) => {}''')
EOF
run M30-per-peer-limit-ignored-outbound "C52" <<'EOF'
s=open('misc/connection-limits/src/lib.rs').read()
i=s.index('fn handle_established_outbound_connection')
j=s.index('self.limits.max_established_per_peer,', i)
s=s[:j]+'None,'+s[j+len('self.limits.max_established_per_peer,'):]
open('misc/connection-limits/src/lib.rs','w').write(s)
EOF
run M31-block-does-not-close-existing "C53" <<'EOF'
sub('misc/allow-block-list/src/lib.rs','''        let inserted = self.state.peers.insert(peer);
        if inserted {
            self.close_connections.push_back(peer);''','''        let inserted = self.state.peers.insert(peer);
        if inserted && self.state.peers.len() > 1 {
            self.close_connections.push_back(peer);''')
EOF
run M32-allowlist-inbound-not-enforced "C53" <<'EOF'
s=open('misc/allow-block-list/src/lib.rs').read()
i=s.index('fn handle_established_inbound_connection')
j=s.index('self.state.enforce(&peer)?;', i)
s=s[:j]+'let _ = &peer;'+s[j+len('self.state.enforce(&peer)?;'):]
open('misc/allow-block-list/src/lib.rs','w').write(s)
EOF
run M33-derive-addresses-last-field-wins "C58" <<'EOF'
sub('swarm-derive/src/lib.rs','''                        Some(ref i) => quote! {
                            combined_addresses.extend(#trait_to_impl::handle_pending_outbound_connection(&mut self.#i, connection_id, maybe_peer, addresses, effective_role)?);''','''                        Some(ref i) => quote! {
                            combined_addresses = (#trait_to_impl::handle_pending_outbound_connection(&mut self.#i, connection_id, maybe_peer, addresses, effective_role)?);''')
EOF
run M34-derive-swarm-event-skips-first-field-on-close "C58 C06" <<'EOF'
sub('swarm-derive/src/lib.rs','''                Some(ref i) => quote! {
                    self.#i.on_swarm_event(event);
                },''','''                Some(ref i) => if field_n == 0 { quote! {
                    if !matches!(event, #from_swarm::ListenFailure(_)) { self.#i.on_swarm_event(event); }
                } } else { quote! {
                    self.#i.on_swarm_event(event);
                } },''')
EOF
