# Table of claimed checks: id -> (category, technique, level text, level_note, design_ref)
# MANIFEST.json is generated from this by tools/gen_manifest.py; keep both committed.
CHECKS = {
 "C13": ("exploration", "runtime differential oracle over exhaustive input pairs",
         "Runs the real _address_translation on every ordered pair of a 191-address alphabet (all host kinds x tails, empty, non-host heads) and compares with an independent component-wise reference; exhaustive over the alphabet, so any change of which heads are swappable or of tail preservation is observed.",
         "Alphabet is finite; trusted base: multiaddr crate parsing/iteration, harness reference (15 lines).", "§5 C13"),
}
NOT_APPLICABLE = {}
