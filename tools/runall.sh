#!/bin/bash
# tools/runall.sh <tier> <seed> [ids...] : run every registered check (or the listed ones) once, one line per check.
# Exit 0 iff every check exited 0. Output lines: "<ID> rc=<n> <last verdict line>".
TIER="${1:-quick}"; SEED="${2:-1}"; shift 2
cd "$(dirname "$0")/.."
IDS="$@"; [ -z "$IDS" ] && IDS="$(python3 -c "import json; print(' '.join(c['property_id'] if 'property_id' in c else c['id'] for c in json.load(open('MANIFEST.json'))['checks']))")"
bad=0
for id in $IDS; do
  out="$(VERIF_SEED=$SEED ./check $id $TIER 2>&1)"; rc=$?
  echo "$id rc=$rc $(echo "$out" | grep -E '^(HELD|VIOLATED|INCONCLUSIVE|KNOWN-FINDING|VIOLATION|SANITIZER|BUILD)' | tr '\n' ';' | cut -c1-400)"
  [ $rc -ne 0 ] && bad=1
done
exit $bad
