#!/usr/bin/env python3
# validates MANIFEST.json and every evidence file against the schemas
import json, sys, glob
import jsonschema
ok = True
def v(path, schema):
    global ok
    try:
        jsonschema.validate(json.load(open(path)), json.load(open(schema)))
    except Exception as e:
        ok = False
        print("INVALID", path, str(e).splitlines()[0])
v("/verif/MANIFEST.json", "/root/.vp/MANIFEST.schema.json")
for f in sorted(glob.glob("/verif/evidence/C*.json")):
    v(f, "/root/.vp/EVIDENCE.schema.json")
print("ok" if ok else "FAILED")
sys.exit(0 if ok else 1)
