#!/usr/bin/env python3
# validates MANIFEST.json and every evidence file against the schemas
import json, sys, glob
import jsonschema
ok = True
def v(path, schema):
    global ok
    try:
        jsonschema.validate(json.load(open(path)), json.load(open(schema)))
    except Exception as e:
        ok = False
        print("INVALID", path, str(e).splitlines()[0])
v("/verif/MANIFEST.json", "/root/.vp/MANIFEST.schema.json")
for f in sorted(glob.glob("/verif/evidence/C*.json")):
    v(f, "/root/.vp/EVIDENCE.schema.json")
m = json.load(open("/verif/MANIFEST.json"))
for c in m["checks"]:
    try:
        ev = json.load(open(c["evidence_file"]))
    except Exception as e:
        ok = False; print("MISSING evidence", c["property_id"]); continue
    if ev["level"] != c["level_claimed"]["category"]:
        ok = False; print("LEVEL MISMATCH", c["property_id"], "evidence", ev["level"], "manifest", c["level_claimed"]["category"])
    if ev["property_id"] != c["property_id"]:
        ok = False; print("ID MISMATCH", c["property_id"])
print("ok" if ok else "FAILED")
sys.exit(0 if ok else 1)
