#!/bin/bash
# tools/mutant.sh <scratch> <name> <check ids...> -- reads a python edit script on stdin that mutates files under <scratch>/repo,
# runs the checks in the scratch copy, prints caught/missed, and reverts the mutation.
set -u
S="$1"; NAME="$2"; shift 2
( cd "$S/repo" && python3 - ) || { echo "MUTANT $NAME: edit script failed"; git -C "$S/repo" checkout -- .; exit 2; }
git -C "$S/repo" diff --stat | tail -1
for id in "$@"; do
  out="$("$S/verif/check" "$id" quick 2>&1 | tail -3)"
  if echo "$out" | grep -q "^VIOLATED"; then echo "MUTANT $NAME: $id CAUGHT ($(echo "$out" | grep -o 'violation\[0\]: [^:]*' | head -1))";
  elif echo "$out" | grep -q "^HELD"; then echo "MUTANT $NAME: $id MISSED";
  else echo "MUTANT $NAME: $id OTHER: $(echo "$out" | tail -1)"; fi
done
git -C "$S/repo" checkout -- .
