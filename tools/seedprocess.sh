#!/bin/bash
# tools/seedprocess.sh <group> <suffix> : process the output of one seeding sub-agent (/tmp/seed-<group>-out/<ID>/):
#   1. tools/seedtest.sh in the scratch /tmp/main (patch applied there, ./check <ID> quick, hard-reset)
#   2. tools/seedverify2.sh in the agent's own worktree /tmp/seed-<group> (existing tests pass with the patch, demo
#      fails with / passes without it), using the "DEMO: -p <crate> <dir> <features|-> <args>" line of notes.md
#   3. copies patch/demo/notes to /verif/seeded/<ID><suffix>/ with a meta.json
# Prints one line per seed. Nothing here touches /repo.
G="$1"; SUF="$2"
for d in /tmp/seed-$G-out/*/; do
  ID="$(basename "$d")"
  [ -f "$d/patch.diff" ] || { echo "PROCESS $ID: no patch.diff"; continue; }
  demo="$(grep -m1 -E '^\**`?DEMO:' "$d/notes.md" | sed -E 's/^\**`?DEMO:\s*//; s/`.*$//')"
  [ -z "$demo" ] && demo="$(grep -m1 -oE 'DEMO: -p .*' "$d/notes.md" | sed -E 's/^DEMO:\s*//; s/`.*$//')"
  set -- $demo; shift   # drop -p
  CRATE="$1"; CDIR="$2"; FEAT="$3"; shift 3; ARGS="$*"
  case "$FEAT" in -|--*) ;; *) FEAT="--features=$FEAT" ;; esac
  t="$(/verif/tools/seedtest.sh /tmp/main "$d/patch.diff" "$ID" 2>&1 | grep SEED | sed -E 's/^SEED \S+ //' | cut -c1-200)"
  if [ -z "$CRATE" ]; then v="no DEMO line"; else
    v="$(/verif/tools/seedverify2.sh /tmp/seed-$G "${d%/}" "$ID" "$CRATE" "$CDIR" "$FEAT" $ARGS 2>&1 | grep VERIFY | sed -E 's/^VERIFY \S+ //')"
  fi
  dst="/verif/seeded/$ID$SUF"; mkdir -p "$dst"; cp "$d"/* "$dst/" 2>/dev/null
  python3 - "$dst" "$ID" "$t" "$v" "$CRATE" "$CDIR" "$FEAT" "$ARGS" <<'PY'
import json, re, sys, os
dst, pid, t, v, crate, cdir, feat, args = sys.argv[1:9]
notes = open(os.path.join(dst, 'notes.md')).read()
m = re.search(r'##[^\n]*(needed|needs|manifest)[^\n]*\n(.*?)(\n## |\Z)', notes, re.S | re.I)
need = re.sub(r'\s+', ' ', (m.group(2).strip() if m else 'see notes.md'))[:900]
json.dump({"property": pid,
  "origin": "independent sub-agent given only the property text (plus a one-line description of the earlier seeded change for this property, to avoid repeating it) and its own git worktree of /repo (nothing from /verif)",
  "needs_to_manifest": need,
  "demonstration": f"cargo test --offline -p {crate} {'' if feat == '-' else feat} {args}  (test file copied to {cdir}/tests/ or demo.diff applied)",
  "confirmed_by_main_session": v,
  "confirmation_procedure": "tools/seedverify2.sh in a scratch git worktree of /repo at main HEAD: (1) patch applies and the crate's whole existing test suite passes with it (wall-clock flaky baseline tests re-run alone), (2) the demonstration fails with the patch, (3) passes without it",
  "checks_run": f"tools/seedtest.sh /tmp/main {dst}/patch.diff {pid}  (scratch worktree hard-reset, patch applied there, ./check {pid} quick run in the scratch harness, hard-reset again; /repo never touched)",
  "result": f"{pid} quick: {t}"}, open(os.path.join(dst, 'meta.json'), 'w'), indent=1)
PY
  echo "PROCESS $ID: check=[$t] verify=[$v]"
done
