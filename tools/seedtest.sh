#!/bin/bash
# tools/seedtest.sh <scratch> <patch.diff> <check ids...> : apply a seeded defect in the scratch repo (a git worktree
# of /repo made by tools/scratch.sh, never /repo itself), run checks there, revert. The scratch repo is hard-reset
# before and after, so that patches never accumulate (git apply -3 stages its result in the index).
S="$1"; P="$2"; shift 2
clean() { git -C "$S/repo" reset -q --hard; git -C "$S/repo" clean -fdq; }
clean
[ -z "$(git -C "$S/repo" status --porcelain)" ] || { echo "SEED $P: scratch repo not clean"; exit 2; }
git -C "$S/repo" apply "$P" 2>/dev/null || git -C "$S/repo" apply -3 "$P" 2>/dev/null || { echo "SEED $P: patch does not apply"; exit 2; }
for id in "$@"; do
  full="$("$S/verif/check" "$id" quick 2>&1)"; rc=$?
  out="$(echo "$full" | tail -8)"
  if [ $rc -eq 1 ] || echo "$out" | grep -q "^VIOLATED"; then echo "SEED $P: $id CAUGHT ($(echo "$out" | grep -o 'violation\[0\]: [^:]*' | head -1))";
  elif echo "$out" | grep -q "^HELD"; then echo "SEED $P: $id MISSED";
  else echo "SEED $P: $id OTHER: $(echo "$out" | tail -1)"; fi
done
clean
