#!/bin/bash
# tools/seedtest.sh <scratch> <patch.diff> <check ids...> : apply a seeded defect in the scratch repo, run checks there, revert
S="$1"; P="$2"; shift 2
git -C "$S/repo" checkout -q -- . ; git -C "$S/repo" apply -3 "$P" 2>/dev/null || git -C "$S/repo" apply "$P" || { echo "SEED $(basename $(dirname $P)): patch does not apply"; exit 2; }
for id in "$@"; do
  out="$("$S/verif/check" "$id" quick 2>&1 | tail -4)"
  if echo "$out" | grep -q "^VIOLATED"; then echo "SEED $P: $id CAUGHT ($(echo "$out" | grep -o 'violation\[0\]: [^:]*' | head -1))";
  elif echo "$out" | grep -q "^HELD"; then echo "SEED $P: $id MISSED";
  else echo "SEED $P: $id OTHER: $(echo "$out" | tail -1)"; fi
done
git -C "$S/repo" checkout -q -- .
