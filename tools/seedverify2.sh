#!/bin/bash
# tools/seedverify2.sh <worktree> <seed-dir> <ID> <crate> <crate-dir> <features-or-> <demo-args...>
# Confirms one seeded defect in a scratch git worktree of /repo (never /repo itself):
#   1. patch applies to the current main HEAD and the crate's existing tests pass with it
#      (failing tests are re-run alone up to 2 times: several baseline tests are wall-clock flaky under load)
#   2. the demonstration FAILS with the patch
#   3. the demonstration PASSES without the patch
# The demonstration is either test files copied to <crate-dir>/tests/ or a demo.diff adding an in-crate test module.
# Prints one line "VERIFY <ID>: OK|BAD ..." and appends the detail to <worktree>/verify.log.
WT="$1"; SD="$2"; ID="$3"; CRATE="$4"; CDIR="$5"; FEAT="$6"; shift 6
[ "$FEAT" = "-" ] && FEAT=""
export CARGO_TARGET_DIR="$WT/target" CARGO_NET_OFFLINE=true
LOG="$WT/verify.log"
cd "$WT" || exit 2
git checkout -q --detach "$(git -C /repo rev-parse HEAD)" 2>/dev/null
git checkout -q -- . && git clean -fdq -e target -e verify.log
summ() { grep -E '^test result' | awk '{p+=$4; f+=$6} END {printf "%d passed %d failed", p, f}'; }
add_demo() {
  if [ -f "$SD/demo.diff" ]; then git apply "$SD/demo.diff" || return 1
  else mkdir -p "$CDIR/tests"; for f in "$SD"/*.rs; do
         # a demo file belongs to this crate unless its name says otherwise (C21 has one per crate)
         cp "$f" "$CDIR/tests/"; done
  fi
}
echo "=== $ID $(date +%T)" >> "$LOG"
git apply -3 "$SD/patch.diff" 2>>"$LOG" || { echo "VERIFY $ID: BAD patch does not apply"; exit 1; }
git reset -q
# 1. existing tests with the patch
out="$(timeout 5400 cargo test --offline -p "$CRATE" $FEAT --no-fail-fast 2>&1)"
echo "$out" | grep -E '^test result|FAILED|^error' >> "$LOG"
existing="$(echo "$out" | summ)"
failed="$(echo "$out" | grep -E '^test .* FAILED$' | awk '{print $2}' | sort -u)"
still=""
for t in $failed; do
  ok=0
  for _ in 1 2; do
    if timeout 1200 cargo test --offline -p "$CRATE" $FEAT -- --exact "$t" 2>&1 | grep -qE '^test result: ok. [1-9]'; then ok=1; break; fi
  done
  [ $ok = 1 ] || still="$still $t"
done
if echo "$out" | grep -qE 'could not compile|^error\[E' ; then still="$still COMPILE-ERROR"; fi
# 2. demo with the patch
add_demo || { echo "VERIFY $ID: BAD demo does not apply"; exit 1; }
out="$(timeout 3000 cargo test --offline -p "$CRATE" $FEAT "$@" 2>&1)"
echo "$out" | grep -E '^test |^error' | tail -20 >> "$LOG"
with="$(echo "$out" | summ)"
# 3. demo without the patch
git apply -R "$SD/patch.diff" 2>>"$LOG" || { git checkout -q -- . ; add_demo; }
out="$(timeout 3000 cargo test --offline -p "$CRATE" $FEAT "$@" 2>&1)"
echo "$out" | grep -E '^test |^error' | tail -20 >> "$LOG"
without="$(echo "$out" | summ)"
git checkout -q -- . && git clean -fdq -e target -e verify.log
verdict=OK
case "$with" in *" 0 failed") verdict=BAD;; esac
case "$without" in "0 passed"*) verdict=BAD;; *" 0 failed") ;; *) verdict=BAD;; esac
[ -n "$still" ] && verdict=BAD
echo "VERIFY $ID: $verdict existing-with-patch=[$existing; flaky-rerun-ok=$(echo $failed | wc -w); still-failing=${still:-none}] demo-with-patch=[$with] demo-without-patch=[$without]"
