#!/bin/bash
# Build every harness group offline from files on disk (run once after a fresh restore).
# Each group is built separately so that one group failing to build does not block the others;
# every ./check invocation rebuilds its own group anyway.
set -u
ROOT="$(cd "$(dirname "$0")" && pwd)"
export CARGO_NET_OFFLINE=true
export CARGO_TARGET_DIR="${VERIF_TARGET_DIR:-$ROOT/target}"
export RUSTFLAGS="--cfg libp2p_verif"
mkdir -p "$CARGO_TARGET_DIR" "$ROOT/evidence" "$ROOT/runs"
cd "$ROOT/harness" || exit 1
fail=0
for g in vmon vnet vc-swarm vc-wire vc-sec vc-gossipsub vc-gsnet vc-kad vc-proto vc-protonet vc-misc; do
  if cargo build --offline --profile vrel -p "$g" >"$CARGO_TARGET_DIR/setup-$g.log" 2>&1; then echo "built $g"; else echo "WARN: $g failed to build (see $CARGO_TARGET_DIR/setup-$g.log)"; tail -5 "$CARGO_TARGET_DIR/setup-$g.log"; fail=1; fi
done
# vmon/vnet are required; group failures are reported but do not fail setup (their checks would report BUILD-FAILED)
[ -x "$CARGO_TARGET_DIR/vrel/vc-swarm" ] || exit 1
exit 0
