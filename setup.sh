#!/bin/bash
# Build every harness group offline from files on disk (run once after a fresh restore).
set -u
ROOT="$(cd "$(dirname "$0")" && pwd)"
export CARGO_NET_OFFLINE=true
export CARGO_TARGET_DIR="${VERIF_TARGET_DIR:-$ROOT/target}"
export RUSTFLAGS="--cfg libp2p_verif"
mkdir -p "$CARGO_TARGET_DIR" "$ROOT/evidence" "$ROOT/runs"
cd "$ROOT/harness" && cargo build --offline --profile vrel --workspace 2>&1 | tail -5
exit ${PIPESTATUS[0]}
